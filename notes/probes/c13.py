import warnings,itertools,operator
warnings.simplefilter('ignore')
import numpy as np, pyPRISM
from pyPRISM import MatrixArray, Space
issues=[]
def mk(L,r,space,seed):
    rng=np.random.RandomState(seed); d=rng.rand(L,r,r)+np.eye(r)*r; d=(d+d.transpose(0,2,1))/2
    return MatrixArray(length=L,rank=r,data=d,space=space)
ops={'add':(operator.add,operator.iadd),'sub':(operator.sub,operator.isub),'mul':(operator.mul,operator.imul),'div':(operator.truediv,operator.itruediv)}
n=0
for r in [1,2,3,5]:
  for L in [1,2,7]:
    for opn,(op,iop) in ops.items():
      for kind in ['scalar','arr0','arrL11','arrfull','MA','MA1']:
        for sa,sb in itertools.product(Space,Space):
          A=mk(L,r,sa,1); B=mk(L,r,sb,2)
          if kind=='scalar': other=2.5; od=2.5
          elif kind=='arr0': other=np.array(2.5); od=2.5
          elif kind=='arrL11': other=np.linspace(1,2,L).reshape(L,1,1); od=other
          elif kind=='arrfull': other=B.data.copy(); od=other
          elif kind=='MA': other=B; od=B.data
          elif kind=='MA1': other=mk(1,r,sb,3); od=other.data
          if kind not in('MA','MA1') and sb!=Space.Real: continue
          n+=1
          a0=A.data.copy(); o0=np.copy(od)
          legal = kind not in('MA','MA1') or sa==sb or Space.NonSpatial in (sa,sb)
          try:
              R=op(A,other); ok=True
          except AssertionError: ok=False
          except Exception as e: issues.append(('exc',r,L,opn,kind,sa,sb,repr(e)[:60])); continue
          if ok!=legal: issues.append(('legal',r,L,opn,kind,sa,sb,ok,legal)); continue
          if ok:
              ref=op(a0,o0)
              if not np.array_equal(R.data,ref): issues.append(('val',r,L,opn,kind))
              if np.shares_memory(R.data,A.data) or (isinstance(od,np.ndarray) and np.shares_memory(R.data,od)): issues.append(('alias',r,L,opn,kind))
              if not np.array_equal(A.data,a0) or not np.array_equal(od,o0): issues.append(('mutated',r,L,opn,kind))
              if R.space!=sa: issues.append(('space',r,L,opn,kind,sa,sb,R.space))
          # in place
          A2=mk(L,r,sa,1); buf=A2.data
          try:
              R2=iop(A2,other); ok2=True
          except AssertionError: ok2=False
          except Exception as e: issues.append(('iexc',r,L,opn,kind,sa,sb,repr(e)[:60])); continue
          if ok2!=legal: issues.append(('ilegal',r,L,opn,kind,sa,sb)); continue
          if ok2:
              if R2 is not A2: issues.append(('inotself',))
              if not np.allclose(A2.data,op(a0,o0),rtol=1e-15,atol=0): issues.append(('ival',r,L,opn,kind))
              if not np.array_equal(od,o0): issues.append(('iomut',r,L,opn,kind))
print(n,len(issues)); 
from collections import Counter
print(Counter(i[0] for i in issues)); print(issues[:10])
# dot / invert
A=mk(4,3,Space.Real,1); B=mk(4,3,Space.Real,2); a0=A.data.copy()
R=A.dot(B); print(np.allclose(R.data,np.array([A.data[i]@B.data[i] for i in range(4)])), np.shares_memory(R.data,A.data))
Ai=A.invert(); print(np.array_equal(A.data,a0), np.allclose(A.dot(Ai).data,np.eye(3)))
A.invert(inplace=True); print(np.allclose(A.data,Ai.data))
try: A.dot(mk(4,3,Space.Fourier,2)); print('dot mismatch allowed!')
except AssertionError: print('dot refused')
C=A.get_copy(); print(np.shares_memory(C.data,A.data), C.types is A.types)
try: A['A','Z']; 
except ValueError as e: print('VE ok')
A['A','C']=np.arange(4.0); print(A['C','A'], A.data[:,2,0])
