import warnings,time,itertools
warnings.simplefilter('ignore')
import numpy as np, pyPRISM
def build(rhoA,rhoB,dB,kT,L=128,dr=0.1,N=8,clos='PY'):
    types=['A','B']
    s = pyPRISM.System(types,kT=kT)
    s.domain = pyPRISM.Domain(dr=dr,length=L)
    s.density['A']=rhoA; s.density['B']=rhoB; s.diameter['A']=1.0; s.diameter['B']=dB
    s.closure[types,types]=getattr(pyPRISM.closure,clos)()
    s.potential[types,types]=pyPRISM.potential.HardSphere()
    s.omega[types,types]=pyPRISM.omega.NoIntra()
    s.omega['A','A']=pyPRISM.omega.Gaussian(sigma=1.0,length=N)
    s.omega['B','B']=pyPRISM.omega.SingleSite()
    return s
tot=0;ok=0;t0=time.time();fails=[]
for rhoA,rhoB,dB,L,N,clos in itertools.product([0.05,0.2,0.4],[0.1,0.3],[1.0,1.2,1.5],[128,256],[1,8,50],['PY','HNC']):
    s=build(rhoA,rhoB,dB,1.0,L=L,N=N,clos=clos)
    P=s.createPRISM(); tot+=1
    try:
        r=P.solve(options={'disp':False,'maxiter':60}); 
        if r.success: ok+=1
        else: fails.append((rhoA,rhoB,dB,L,N,clos,'nc'))
    except Exception as e:
        fails.append((rhoA,rhoB,dB,L,N,clos,type(e).__name__))
print(tot,ok,'%.1fs'%(time.time()-t0)); print(fails)
