import warnings
warnings.simplefilter('ignore')
import numpy as np, pyPRISM
C=pyPRISM.calculate
def wt(eta):
    l1=(1+2*eta)**2/(1-eta)**4; l2=-(1+eta/2)**2/(1-eta)**4
    c=lambda r: np.where(r<1, -(l1+6*eta*l2*r+0.5*eta*l1*r**3), 0.0)
    def ck(k):
        # 4pi int_0^1 c(r) r sin(kr)/k dr  analytic via numeric Gauss-Legendre (independent quadrature)
        x,w=np.polynomial.legendre.leggauss(80); r=0.5*(x+1); w=0.5*w
        return np.array([4*np.pi*np.sum(w*c(r)*r*np.sin(kk*r)/kk) for kk in k])
    return l1,l2,c,ck
for eta in [0.05,0.2,0.35,0.45]:
    rho=6*eta/np.pi
    l1,l2,c,ck=wt(eta)
    gc=(1+eta/2)/(1-eta)**2; gprime=6*eta*l2+1.5*eta*l1
    print('eta',eta,'gc',gc,"g'(1+)",gprime, 'c(0)',-l1)
    dom0=pyPRISM.Domain(dr=25.6/128,length=128); k0=dom0.k[:40]; r0=dom0.r
    Sx=1/(1-rho*ck(k0))
    for n in range(0,6):
        L=128*2**n; dr=25.6/L
        s=pyPRISM.System(['A']); s.domain=pyPRISM.Domain(dr=dr,length=L); s.density['A']=rho; s.diameter['A']=1.0
        s.closure['A','A']=pyPRISM.closure.PY(); s.potential['A','A']=pyPRISM.potential.HardSphere(); s.omega['A','A']=pyPRISM.omega.SingleSite()
        if len(s.domain.r)!=L: print('  skip L',L); continue
        P=s.solve(options={'disp':False,'fatol':1e-10}); 
        if not P.minimize_result.success: print('  noconv'); continue
        r=s.domain.r; g=C.pair_correlation(P)['A','A']; S=C.structure_factor(P)['A','A'][:40]
        i=np.searchsorted(r,1.0+1e-9); 
        cr=s.domain.to_real(P.directCorr['A','A'])
        step=2**n; sel=np.arange(step-1,L,step)  # points coinciding with coarsest grid
        rc=r[sel]; m=np.abs(rc-1.0)>1e-6
        ec=np.abs(cr[sel]-c(rc))[m]
        print('  dr %.5f contact err/dr %.3f  S err max/dr %.3f (S0 err/dr %.3f)  c err max/dr %.3f at r=%.2f  r_contactpt-1=%.1e'%(dr,abs(g[i]-gc)/dr,np.abs(S-Sx).max()/dr,abs(S[0]-Sx[0])/dr,ec.max()/dr,rc[m][ec.argmax()],r[i-1]-1.0))
