import warnings, itertools
warnings.simplefilter('ignore')
import numpy as np, pyPRISM
from pyPRISM.core.Space import Space
C=pyPRISM.calculate
s=pyPRISM.System(['A','B'],kT=1.5); s.domain=pyPRISM.Domain(dr=0.1,length=256)
s.density['A']=0.2; s.density['B']=0.35; s.diameter['A']=1.0; s.diameter['B']=1.4
s.closure['A','A']=pyPRISM.closure.PercusYevick(); s.closure['A','B']=pyPRISM.closure.HyperNettedChain(); s.closure['B','B']=pyPRISM.closure.MSA(apply_hard_core=True)
s.potential['A','A']=pyPRISM.potential.HardSphere(); s.potential['A','B']=pyPRISM.potential.HardCoreLennardJones(epsilon=0.4); s.potential['B','B']=pyPRISM.potential.Exponential(epsilon=0.3,alpha=0.7)
s.omega['A','A']=pyPRISM.omega.Gaussian(sigma=1.0,length=6); s.omega['A','B']=pyPRISM.omega.NoIntra(); s.omega['B','B']=pyPRISM.omega.SingleSite()
for opts in [{'disp':False},{'disp':False,'fatol':1e-11}]:
    P=s.createPRISM(); res=P.solve(options=opts)
    d=s.domain; r=d.r;k=d.k
    y=res.fun.reshape(-1,2,2)
    print('succ',res.success,'|F|',np.abs(res.fun).max())
    # PRISM eq
    Om=np.zeros((256,2,2)); 
    w={('A','A'):s.omega['A','A'].calculate(k)*0.2,('B','B'):np.ones(256)*0.35,('A','B'):np.zeros(256)}
    for (a,b),v in w.items():
        i,j='AB'.index(a),'AB'.index(b); Om[:,i,j]=v; Om[:,j,i]=v
    hr=P.totalCorr.data.copy(); assert P.totalCorr.space==Space.Real
    hk=np.zeros_like(hr); rho=np.array([0.2,0.35]); 
    for i in range(2):
        for j in range(2): hk[:,i,j]=d.to_fourier(hr[:,i,j])*rho[i]*rho[j]
    Ck=P.directCorr.data
    R=hk-np.einsum('lij,ljk,lkm->lim',Om,Ck,Om+hk)
    print('PRISM resid',np.abs(R).max(),'scale',np.abs(hk).max(), 'Om match',np.abs(Om-P.omega.data).max())
    # closure
    def u(pair):
        if pair==(0,0): return np.where(r>1.0,0,1e6)
        if pair==(0,1): 
            sg=1.2; v=0.4*((sg/r)**12-2*(sg/r)**6); v[r<=sg]=1e6; return v
        sg=1.4; return np.where(r>sg,-0.3*np.exp(-(r-sg)/0.7),1e6)
    for (i,j) in [(0,0),(0,1),(1,1)]:
        c=d.to_real(Ck[:,i,j]); h=hr[:,i,j]; g=h-c; U=u((i,j))/1.5
        if (i,j)==(0,0): ref=(np.exp(-U)-1)*(1+g); slope=np.abs(np.exp(-U)-1)
        elif (i,j)==(0,1): ref=np.exp(g-U)-1-g; slope=np.abs(np.exp(g-U)-1)
        else: ref=np.where(r>1.4,-U,-1-g); slope=np.where(r>1.4,0,1.0)
        err=np.abs(ref-c); bound=slope*np.abs(y[:,i,j])/r
        print((i,j),'closure err max',err.max(),'bound max',bound.max(),'max(err-bound)',(err-bound).max(), 'core g max',np.abs(h+1)[r<=[1.0,1.2,1.4][i+j]].max())
