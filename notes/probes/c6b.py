import warnings, time, copy
warnings.simplefilter('ignore')
import numpy as np, pyPRISM
from pyPRISM.core.Space import Space
C=pyPRISM.calculate
exec(open('c6.py').read().split("s=build(2)")[0])
s=build(2,L=128); P=s.solve(options={'disp':False}); x0=P.minimize_result.x.copy()
d=P.sys.domain
ref=C.structure_factor(copy.deepcopy(P))['A','B'].copy()
# omega round trip
d.MatrixArray_to_real(P.omega); print('omega real max',np.abs(P.omega.data).max())
S=C.structure_factor(P)['A','B']; print('S dev after omega roundtrip',np.abs(S-ref).max()/np.abs(ref).max())
# 200 round trips of totalCorr
for i in range(200):
    C.second_virial(P); C.pair_correlation(P)
S=C.structure_factor(P)['A','B']; print('S dev after 200 roundtrips',np.abs(S-ref).max()/np.abs(ref).max())
# re-solve from own x
t=time.time(); r2=P.solve(guess=x0,options={'disp':False}); print('resolve nit',r2.nit,'dx',np.abs(r2.x-x0).max(),'t',time.time()-t)
S=C.structure_factor(P)['A','B']; print('S dev after resolve',np.abs(S-ref).max()/np.abs(ref).max())
t=time.time(); Q=copy.deepcopy(P); print('deepcopy t',time.time()-t)
