import warnings,time,copy,collections,itertools
warnings.simplefilter('ignore')
import numpy as np, pyPRISM
from pyPRISM.core.Space import Space
C=pyPRISM.calculate
exec(open('c6.py').read().split("s=build(2)")[0])
import sys
n=int(sys.argv[1])
s=build(n,L=128)
OPT={'disp':False,'fatol':1e-11,'maxiter':100}
P0=s.createPRISM(); r=P0.solve(options=OPT); print('solved',r.success,np.abs(r.fun).max())
x0=r.x.copy()
def fresh():
    Q=s.createPRISM(); Q.cost(x0.copy()); Q.sys.domain.MatrixArray_to_real(Q.totalCorr); return Q
def val(v):
    if isinstance(v,pyPRISM.MatrixArray): return ('MA',v.space,v.data.copy())
    if isinstance(v,pyPRISM.PairTable): return ('PT',{(a,b):(None if x is None else np.array(x,dtype=float)) for _,(a,b),x in v.iterpairs(full=True)})
    raise TypeError(type(v))
def same(a,b,pm=False):
    if a[0]!=b[0]: return False
    if a[0]=='MA':
        if a[1]!=b[1]: return False
        x,y=a[2],b[2]
        if pm: m=np.isfinite(x)&np.isfinite(y)&(y<10); x=x[m]; y=y[m]
        return np.allclose(x,y,rtol=1e-8,atol=1e-9*max(1,np.abs(y).max() if y.size else 1))
    for k in a[1]:
        x,y=a[1][k],b[1][k]
        if (x is None)!=(y is None): return False
        if x is not None and not np.allclose(x,y,rtol=1e-8,atol=1e-9*max(1,np.abs(y).max())): return False
    return True
def flip(name):
    def f(P):
        A=getattr(P,name); d=P.sys.domain
        (d.MatrixArray_to_real if A.space==Space.Fourier else d.MatrixArray_to_fourier)(A); return None
    return f
def resolve(P):
    if P.omega.space!=Space.Fourier: return 'disabled'
    r=P.solve(guess=P.minimize_result.x.copy() if hasattr(P,'minimize_result') else x0.copy(),options=OPT); return None
ops=[('g',lambda P:C.pair_correlation(P)),('S1',lambda P:C.structure_factor(P)),('S0',lambda P:C.structure_factor(P,normalize=False)),('pmf',lambda P:C.pmf(P)),
 ('B2e',lambda P:C.second_virial(P)),('B2',lambda P:C.second_virial(P,extrapolate=False)),('chi0',lambda P:C.chi(P)),('chik',lambda P:C.chi(P,extrapolate=False)),
 ('sp1',lambda P:C.spinodal_condition(P)),('sp0',lambda P:C.spinodal_condition(P,extrapolate=False)),('psiH',lambda P:C.solvation_potential(P)),('psiP',lambda P:C.solvation_potential(P,closure='PY')),
 ('flipT',flip('totalCorr')),('flipC',flip('directCorr')),('flipO',flip('omega')),('resolve',resolve)]
REF={}
for nm,f in ops[:12]:
    REF[nm]=val(f(fresh()))
refarr={}
Q=fresh(); d=Q.sys.domain
for nm in ['totalCorr','directCorr','omega']:
    A=getattr(Q,nm); sp=A.space; a=A.data.copy()
    (d.MatrixArray_to_real if sp==Space.Fourier else d.MatrixArray_to_fourier)(A); b=A.data.copy()
    refarr[nm]={sp:a,A.space:b}
def canon(P):
    out=[]
    for nm in ['totalCorr','directCorr','omega']:
        A=getattr(P,nm); ref=refarr[nm][A.space]
        tag='ref' if np.allclose(A.data,ref,rtol=1e-8,atol=1e-9*np.abs(ref).max()) else hash(np.round(A.data,6).tobytes())
        out.append((A.space.name,tag))
    return tuple(out)
start=fresh(); start.minimize_result=P0.minimize_result
seen={canon(start):()}; frontier=collections.deque([((),start)]); trans=0; viol=[]
t0=time.time()
while frontier and len(seen)<500:
    hist,P=frontier.popleft()
    for nm,f in ops:
        Q=copy.deepcopy(P)
        try: v=f(Q)
        except Exception as e: viol.append((hist+(nm,),'EXC '+type(e).__name__)); continue
        if v=='disabled': continue
        trans+=1
        if nm in REF and not same(val(v),REF[nm],pm=(nm=="pmf")): viol.append((hist+(nm,),'value'))
        k=canon(Q)
        if k not in seen: seen[k]=hist+(nm,); frontier.append((hist+(nm,),Q))
print('states',len(seen),'transitions',trans,'violations',len(viol),'%.1fs'%(time.time()-t0))
for v in sorted(viol,key=lambda v:len(v[0]))[:8]: print(v)
for k,h in list(seen.items())[:12]: print(k,h)
