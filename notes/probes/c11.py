import warnings, math
warnings.simplefilter('ignore')
import numpy as np, scipy.integrate
np.trapz=np.trapezoid; scipy.integrate.simps=scipy.integrate.simpson
import pyPRISM
from numpy.polynomial.legendre import leggauss
# exact FJC end-to-end density for tau bonds of length 1 (Treloar / Rayleigh): p(r) = 1/(2^{tau+1} (tau-2)! pi r) sum_{s=0}^{floor((tau-r)/2)} (-1)^s C(tau,s) (tau - r - 2s)^{tau-2}
def p_fjc(r,tau):
    out=np.zeros_like(r)
    for s in range(0,tau+1):
        m=(tau-r-2*s)
        term=(-1)**s*math.comb(tau,s)*np.where(m>0,m,0.0)**(tau-2)
        out+=term
    return out/(2**(tau+1)*math.factorial(tau-2)*np.pi*r)
x,w=leggauss(60); rr=0.5*(x+1); ww=0.5*w   # [0,1]
def omega_tau(k,tau):
    p=p_fjc(rr,tau)
    J0=np.sum(ww*4*np.pi*rr**2*p)
    Jk=np.array([np.sum(ww*4*np.pi*rr**2*p*np.sin(kk*rr)/(kk*rr)) for kk in k])
    B=1/(1-J0)
    return B*((np.sin(k)/k)**tau-Jk),J0
def nfjc_ref(k,N):
    E=np.sin(k)/k
    out=np.ones_like(k)
    for tau in range(1,N):
        wt=E**tau if tau==1 else omega_tau(k,tau)[0]
        out+=2.0/N*(N-tau)*wt
    return out
k=np.array([0.01,0.0306,0.1,0.5,1.0,2.0,3.7,7.3,15.1,30.3])
for N in [3,5,10]:
    o=pyPRISM.omega.NFJC(length=N,l=1.0).calculate(k)
    ref=nfjc_ref(k,N)
    print(N,'impl',np.round(o,5),'\n  ref ',np.round(ref,5),'\n  maxrel',np.abs(o-ref).max())
print('J0 tau=2..5',[omega_tau(k,t)[1] for t in range(2,6)])
# check normalisation of p_fjc
r=np.linspace(1e-6,5,200001); print('norm tau=3',np.trapezoid(4*np.pi*r*r*p_fjc(r,3),r),'tau=5',np.trapezoid(4*np.pi*r*r*p_fjc(r,5),r))
