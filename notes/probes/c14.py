import warnings
warnings.simplefilter('ignore')
import numpy as np, pyPRISM, os, tempfile
PT=pyPRISM.PairTable(['A','B','C'],'x')
v=[1]
PT[['A','B'],['A','B','C']]=v
v.append(2)
print({(a,b):PT[a,b] for a in 'ABC' for b in 'ABC'})
PT['A','B'].append(9); print(PT['B','A'],PT['A','A'],PT['A','C'],PT['C','A'])
PT.setUnset([7]); print(PT['C','C']); 
print([ (i,t) for i,t,v in PT.iterpairs()],[ (i,t) for i,t,v in PT.iterpairs(diagonal=False)],len(list(PT.iterpairs(full=True))))
VT=pyPRISM.ValueTable(['A','B'],'v'); l=[1]; VT[['A','B']]=l; l.append(2); print(VT['A'],VT['B'] is VT['A'])
# Density
rho=pyPRISM.Density(['A','B','C']); rho['B']=0.3; rho['A']=0.1; print(rho.pair.data,rho.site.data,rho.total)
rho['B']=0.5; rho['C']=0.2; print(rho.pair.data[0],'\n',rho.site.data[0],rho.total)
d=pyPRISM.Diameter(['A','B']); d['A']=1.0; d['B']=2.0; d['A']=3.0; print(d.sigma['A','B'],d.sigma['B','A'],d.sigma['A','A'],d.volume['A'],np.pi*27/6,d['A','B'],d['A'])
# FromFile
dom=pyPRISM.Domain(dr=0.1,length=8)
tmp=tempfile.mkdtemp()
f1=os.path.join(tmp,'one.txt'); np.savetxt(f1,np.arange(5.0))
o=pyPRISM.omega.FromFile(f1); print('one col wrong len ->',len(o.calculate(dom.k)))
s=pyPRISM.System(['A']); s.domain=dom; s.density['A']=0.1; s.diameter['A']=1.0; s.closure['A','A']=pyPRISM.closure.PY(); s.potential['A','A']=pyPRISM.potential.HardSphere(); s.omega['A','A']=o
try:
    P=s.createPRISM(); print('built',P.omega.length)
    try: P.cost(np.zeros(8)); print('cost ran!!')
    except Exception as e: print('cost EXC',type(e).__name__,str(e)[:80])
    try: r=P.solve(options={'disp':False}); print('solve ran', r.success)
    except Exception as e: print('solve EXC',type(e).__name__,str(e)[:80])
except Exception as e: print('build EXC',type(e).__name__,e)
