import warnings
warnings.simplefilter('ignore')
import numpy as np, pyPRISM
uc = pyPRISM.util.UnitConverter(dc=1.5,dc_unit='nm')
for name,f in [('toKelvin',lambda: uc.toKelvin(1.0)),('toCelcius',lambda: uc.toCelcius(1.0)),
   ('toInvAngstrom',lambda: uc.toInvAngstrom(np.array([1.0,2.0]))),('toInvNanometer',lambda: uc.toInvNanometer(1.0)),
   ('toConcentration',lambda: uc.toConcentration(0.8)),('toVolumeFraction',lambda: uc.toVolumeFraction(0.8,1.0)),
   ('toVolumeFraction arr',lambda: uc.toVolumeFraction(np.array([0.8,0.4]),1.0))]:
    try:
        v=f(); print(name, repr(v), getattr(v,'units',None))
    except Exception as e:
        print(name,'EXC',type(e).__name__,str(e)[:200])
uc2 = pyPRISM.util.UnitConverter(ec=4.1e-21,ec_unit='joule')
print(uc2.toKelvin(1.0))
