import warnings, time, copy
warnings.simplefilter('ignore')
import numpy as np, pyPRISM
from pyPRISM.core.Space import Space
C=pyPRISM.calculate
def build(n=2,L=128,dr=0.1):
    types=['A','B','C'][:n]
    s = pyPRISM.System(types,kT=1.3)
    s.domain = pyPRISM.Domain(dr=dr,length=L)
    for t,rho,d in zip(types,[0.2,0.3,0.1],[1.0,1.2,0.8]):
        s.density[t]=rho; s.diameter[t]=d
    s.closure[types,types]=pyPRISM.closure.PercusYevick()
    s.potential[types,types]=pyPRISM.potential.HardSphere()
    s.omega[types,types]=pyPRISM.omega.NoIntra()
    s.omega['A','A']=pyPRISM.omega.Gaussian(sigma=1.0,length=8)
    for t in types[1:]: s.omega[t,t]=pyPRISM.omega.SingleSite()
    return s
s=build(2); P=s.solve(options={'disp':False}); print(P.minimize_result.success)
a=C.spinodal_condition(P)['A','B']; b=C.spinodal_condition(P)['A','B']; print('spinodal twice',a,b)
P=s.solve(options={'disp':False})
S1=C.structure_factor(P)['A','A'].copy(); C.spinodal_condition(P); S2=C.structure_factor(P)['A','A']
print('S after spinodal differs',np.abs(S1-S2).max())
P=s.solve(options={'disp':False})
s.domain.MatrixArray_to_real(P.directCorr)
for f in [C.chi,C.solvation_potential,C.spinodal_condition]:
    try: f(P); print(f.__name__,'ok', P.directCorr.space); 
    except Exception as e: print(f.__name__,'EXC',type(e).__name__,e)
    if P.directCorr.space==Space.Fourier: s.domain.MatrixArray_to_real(P.directCorr)
# rank 3 spinodal vs independent
s=build(3); P=s.solve(options={'disp':False}); print(P.minimize_result.success)
Om=P.omega.data.copy(); Cc=P.directCorr.data.copy(); k=s.domain.k
lam=C.spinodal_condition(P)
for (i,j) in [(0,1),(0,2),(1,2)]:
    idx=[i,j]
    O2=Om[:,idx][:,:,idx]; C2=Cc[:,idx][:,:,idx]
    det=np.linalg.det(np.eye(2)-np.einsum('lij,ljk->lik',O2,C2))
    x=k[:3]; y=det[:3]
    L0=sum(y[a]*np.prod([(0-x[b])/(x[a]-x[b]) for b in range(3) if b!=a]) for a in range(3))
    t=s.types
    print((i,j),'impl',lam[t[i],t[j]],'ref',L0)
