import warnings
warnings.simplefilter('ignore')
import numpy as np, pyPRISM
C=pyPRISM.calculate; cl=pyPRISM.closure; po=pyPRISM.potential
from numpy.polynomial.legendre import leggauss
POT={'HS':lambda:po.HardSphere(),'HCLJ':lambda:po.HardCoreLennardJones(epsilon=0.5),'EXP':lambda:po.Exponential(epsilon=0.6,alpha=0.5),'LJ':lambda:po.LennardJones(epsilon=0.5,rcut=2.5,shift=True),'WCA':lambda:po.WeeksChandlerAndersen(epsilon=1.0)}
CLO={'PY':lambda:cl.PY(),'HNC':lambda:cl.HNC(),'MSAhc':lambda:cl.MSA(apply_hard_core=True)}
def uref(name,r):
    if name=='HS': return np.where(r>1,0.0,np.inf)
    if name=='HCLJ': return np.where(r>1,0.5*((1/r)**12-2*(1/r)**6),np.inf)
    if name=='EXP': return np.where(r>1,-0.6*np.exp(-(r-1)/0.5),np.inf)
    lj=lambda r: 4*0.5*((1/r)**12-(1/r)**6)
    if name=='LJ': return np.where(r>2.5,0.0,lj(r)-lj(2.5))
    if name=='WCA':
        rc=2**(1/6); e=1.0; f=lambda r:4*e*((1/r)**12-(1/r)**6)
        return np.where(r>rc,0.0,f(r)-f(rc))
for pn in POT:
  for cn in CLO:
    if cn=='MSAhc' and pn in('LJ','WCA'): continue
    for kT in [0.7,3.0]:
        out=[]
        for rho in [1e-2,1e-3,1e-4,1e-5]:
            s=pyPRISM.System(['A'],kT=kT); s.domain=pyPRISM.Domain(dr=0.05,length=512); s.density['A']=rho; s.diameter['A']=1.0
            s.closure['A','A']=CLO[cn](); s.potential['A','A']=POT[pn](); s.omega['A','A']=pyPRISM.omega.SingleSite()
            P=s.createPRISM(); 
            try: res=P.solve(options={'disp':False,'maxiter':100,'fatol':1e-12})
            except Exception as e: out.append(('exc',)); continue
            r=s.domain.r; g=C.pair_correlation(P)['A','A']; u=uref(pn,r)/kT
            amb=np.abs(r-1.0)<1e-6
            with np.errstate(over='ignore'):
                gx=np.exp(-u) if cn!='MSAhc' else np.where(np.isinf(u),0.0,1-u)
            f=np.exp(-u)-1 if cn!='MSAhc' else np.where(np.isinf(u),-1.0,-u)
            # norms
            finf=np.abs(f).max(); f1=np.sum(4*np.pi*r*r*np.abs(f))*s.domain.dr
            err=np.abs(g-gx)[~amb].max(); bound=2*rho*finf*f1*max(1,np.exp(-u[~amb]).max() if cn!='MSAhc' else 1)
            B2=C.second_virial(P)['A','A']; B2x=-2*np.pi*np.sum(f*r*r)*s.domain.dr
            out.append((res.success,'%.2e'%err,'%.2f'%(err/bound),'%.4f'%B2,'%.4f'%B2x))
        print(pn,cn,kT,out)
