import warnings, traceback
warnings.simplefilter('ignore')
import numpy as np, pyPRISM
k = pyPRISM.Domain(dr=0.1,length=64).k
for name,mk in [('Gaussian',lambda: pyPRISM.omega.Gaussian(sigma=1.0,length=10)),
                ('Ring',lambda: pyPRISM.omega.GaussianRing(sigma=1.0,length=10)),
                ('FJC',lambda: pyPRISM.omega.FreelyJointedChain(length=10,l=1.0)),
                ('NFJC',lambda: pyPRISM.omega.NonOverlappingFreelyJointedChain(length=5,l=1.0)),
                ('DK',lambda: pyPRISM.omega.DiscreteKoyama(sigma=1.0,l=1.0,length=10,lp=1.43)),
                ('DKmin',lambda: pyPRISM.omega.DiscreteKoyama(sigma=1.0,l=1.0,length=10,lp=4.0/3.0)),
                ('Single',lambda: pyPRISM.omega.SingleSite()),
                ('NoIntra',lambda: pyPRISM.omega.NoIntra()),
                ('Inter',lambda: pyPRISM.omega.InterMolecular()),
                ]:
    try:
        o = mk()
        v = o.calculate(k)
        print(name, v[:3], v[-2:])
    except Exception as e:
        print(name,'EXC',type(e).__name__,e)
