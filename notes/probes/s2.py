import warnings, time
warnings.simplefilter('ignore')
import numpy as np, pyPRISM
from pyPRISM.core.Space import Space
def build(L=64,dr=0.2,rho=0.5):
    s = pyPRISM.System(['A','B'],kT=1.0)
    s.domain = pyPRISM.Domain(dr=dr,length=L)
    s.density['A']=rho*0.4; s.density['B']=rho*0.6
    s.diameter['A']=1.0; s.diameter['B']=1.2
    s.closure[s.types,s.types]=pyPRISM.closure.PercusYevick()
    s.potential[s.types,s.types]=pyPRISM.potential.HardSphere()
    s.omega['A','A']=pyPRISM.omega.SingleSite()
    s.omega['B','B']=pyPRISM.omega.SingleSite()
    s.omega['A','B']=pyPRISM.omega.NoIntra()
    return s
for m in ['krylov','hybr','lm','broyden1','broyden2','anderson','linearmixing','diagbroyden','excitingmixing','df-sane']:
    s=build(); P=s.createPRISM()
    xs=[]
    orig=P.cost
    def wrapped(x,orig=orig): 
        xs.append(np.array(x,copy=True)); return orig(x)
    P.cost=wrapped
    t=time.time()
    try:
        res=P.solve(method=m,options={} if m in('hybr','lm','df-sane') else {'disp':False})
    except Exception as e:
        print(m,'EXC',type(e).__name__,e); continue
    dt=time.time()-t
    last=xs[-1]
    print(m,'succ',res.success,'nev',len(xs),'t %.2f'%dt,'|F|max',np.abs(res.fun).max(),'last==x',np.array_equal(last,res.x),'|last-x|',np.abs(last-res.x).max(), 'P.x is res.x', np.array_equal(P.x,res.x), 'space',P.totalCorr.space, P.directCorr.space)
