import warnings, math
warnings.simplefilter('ignore')
import numpy as np, pyPRISM
from numpy.polynomial.legendre import leggauss
def p_fjc(r,tau):
    out=np.zeros_like(r)
    for s in range(0,tau+1):
        m=(tau-r-2*s)
        pos=m>0
        term=np.zeros_like(r); term[pos]=(-1)**s*math.comb(tau,s)*m[pos]**(tau-2)
        out+=term
    return out/(2**(tau+1)*math.factorial(tau-2)*np.pi*r)
x,w=leggauss(80); rr=0.5*(x+1); ww=0.5*w
def omega_tau(k,tau):
    p=p_fjc(rr,tau)
    J0=np.sum(ww*4*np.pi*rr**2*p)
    Jk=np.array([np.sum(ww*4*np.pi*rr**2*p*np.sin(kk*rr)/(kk*rr)) for kk in k])
    return ((np.sin(k)/k)**tau-Jk)/(1-J0),J0
def nfjc_ref(k,N):
    E=np.sin(k)/k; out=np.ones_like(k)
    for tau in range(1,N):
        wt=E if tau==1 else omega_tau(k,tau)[0]
        out+=2.0/N*(N-tau)*wt
    return out
print('J0',[round(omega_tau(np.array([1.0]),t)[1],6) for t in range(2,7)])
k=np.concatenate([[1e-4,1e-3,0.01,0.0306,0.1,0.5,1.0,2.0,3.7,7.3,15.1,30.3,100.,1000.], pyPRISM.Domain(dk=0.1,length=40).k])
for N in [2,3,5,10,12]:
    o=pyPRISM.omega.NFJC(length=N,l=1.0).calculate(k); ref=nfjc_ref(k,N)
    e=np.abs(o-ref); print(N,'finite',np.isfinite(o).all(),'max abs err',e.max(),'at k',k[e.argmax()],'rel',(e/np.abs(ref)).max(), 'k->0',o[0],'k=1e3',o[13], 'max',o.max())
print('--- excluding k<0.05')
m=k>=0.05
for N in [2,3,5,10,12]:
    o=pyPRISM.omega.NFJC(length=N,l=1.0).calculate(k); ref=nfjc_ref(k,N)
    e=np.abs(o-ref)[m]; print(N,'max abs err',e.max(),'at k',k[m][e.argmax()],'rel',(e/np.abs(ref[m])).max())
fj=lambda k,N: sum(((N-abs(t))*(np.sin(k)/k)**abs(t) for t in range(-N+1,N)))/N
print('ref-FJC difference N=5 (size of the correction):',np.abs(nfjc_ref(k,5)-fj(k,5))[m].max())
