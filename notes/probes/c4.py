import warnings, time, copy, itertools
warnings.simplefilter('ignore')
import numpy as np, pyPRISM
from pyPRISM.core.Space import Space
C=pyPRISM.calculate
OPT={'disp':False,'fatol':1e-12,'maxiter':200}
def mk(types,rho,d,clos,pot,om,kT=1.0,L=256,dr=0.1):
    s=pyPRISM.System(types,kT=kT); s.domain=pyPRISM.Domain(dr=dr,length=L)
    for t in types: s.density[t]=rho[t]; s.diameter[t]=d[t]
    for a,b in itertools.combinations_with_replacement(types,2):
        key=frozenset((a,b))
        s.closure[a,b]=clos[key](); s.potential[a,b]=pot[key](); s.omega[a,b]=om[key]()
    return s
PY=pyPRISM.closure.PercusYevick; HNC=pyPRISM.closure.HyperNettedChain
HS=pyPRISM.potential.HardSphere
fs=frozenset
base=dict(rho={'A':0.2,'B':0.35},d={'A':1.0,'B':1.4},
  clos={fs('A'):PY,fs('AB'):PY,fs('B'):HNC},
  pot={fs('A'):HS,fs('AB'):lambda: pyPRISM.potential.Exponential(epsilon=0.5,alpha=0.5),fs('B'):HS},
  om={fs('A'):lambda: pyPRISM.omega.Gaussian(sigma=1.0,length=6),fs('AB'):pyPRISM.omega.NoIntra,fs('B'):pyPRISM.omega.SingleSite})
s1=mk(['A','B'],**base); P1=s1.solve(options=OPT); print(P1.minimize_result.success, np.abs(P1.minimize_result.fun).max())
s2=mk(['B','A'],**base); P2=s2.solve(options=OPT); print(P2.minimize_result.success, np.abs(P2.minimize_result.fun).max())
g1=C.pair_correlation(P1); g2=C.pair_correlation(P2)
for a,b in [('A','A'),('A','B'),('B','B')]:
    print('perm',a,b,np.abs(g1[a,b]-g2[a,b]).max())
# scale energies
for f in [0.5,3.0]:
    b2=dict(base); b2['pot']={fs('A'):HS,fs('AB'):lambda f=f: pyPRISM.potential.Exponential(epsilon=0.5*f,alpha=0.5),fs('B'):HS}
    s3=mk(['A','B'],kT=f,**b2); P3=s3.solve(options=OPT); g3=C.pair_correlation(P3)
    print('scale',f,P3.minimize_result.success,max(np.abs(g1[a,b]-g3[a,b]).max() for a,b in [('A','A'),('A','B'),('B','B')]))
    w1=C.pmf(P1)['A','B']; w3=C.pmf(P3)['A','B']; m=g1['A','B']>1e-3
    print('  pmf ratio dev',np.abs(w3[m]-f*w1[m]).max())
# split monatomic
def mono(rho,split=None,L=256,dr=0.1,clos=PY):
    if split is None:
        s=pyPRISM.System(['A']); types=['A']; dens={'A':rho}
    else:
        s=pyPRISM.System(['A','B']); types=['A','B']; dens={'A':rho*split,'B':rho*(1-split)}
    s.domain=pyPRISM.Domain(dr=dr,length=L)
    for t in types: s.density[t]=dens[t]; s.diameter[t]=1.0
    s.closure[types,types]=clos(); s.potential[types,types]=pyPRISM.potential.HardCoreLennardJones(epsilon=0.3)
    s.omega[types,types]=pyPRISM.omega.NoIntra()
    for t in types: s.omega[t,t]=pyPRISM.omega.SingleSite()
    return s
P0=mono(0.5).solve(options=OPT); g0=C.pair_correlation(P0)['A','A']
for sp in [0.5,0.1,0.9]:
    Ps=mono(0.5,sp).solve(options=OPT); gs=C.pair_correlation(Ps)
    print('split',sp,Ps.minimize_result.success,[np.abs(gs[a,b]-g0).max() for a,b in [('A','A'),('A','B'),('B','B')]])
# polymer split into diblock halves
N=8; k=pyPRISM.Domain(dr=0.1,length=256).k
E=np.exp(-k*k/6.0)
def blocksum(I,J): 
    out=np.zeros_like(k)
    for i in I:
        for j in J: out+=E**abs(i-j)
    return out
A=range(0,N//2); B=range(N//2,N)
wAA=blocksum(A,A)/len(A); wBB=blocksum(B,B)/len(B); wAB=blocksum(A,B)/(len(A)+len(B))
s=pyPRISM.System(['A','B']); s.domain=pyPRISM.Domain(dr=0.1,length=256)
s.density['A']=0.3; s.density['B']=0.3; s.diameter[s.types]=1.0
s.closure[s.types,s.types]=PY(); s.potential[s.types,s.types]=HS()
s.omega['A','A']=pyPRISM.omega.FromArray(wAA); s.omega['B','B']=pyPRISM.omega.FromArray(wBB); s.omega['A','B']=pyPRISM.omega.FromArray(wAB)
Pd=s.solve(options=OPT)
h=pyPRISM.System(['A']); h.domain=pyPRISM.Domain(dr=0.1,length=256); h.density['A']=0.6; h.diameter['A']=1.0
h.closure['A','A']=PY(); h.potential['A','A']=HS(); h.omega['A','A']=pyPRISM.omega.Gaussian(sigma=1.0,length=N)
Ph=h.solve(options=OPT); gh=C.pair_correlation(Ph)['A','A']; gd=C.pair_correlation(Pd)
print('diblock',Pd.minimize_result.success,Ph.minimize_result.success,[np.abs(gd[a,b]-gh).max() for a,b in [('A','A'),('A','B'),('B','B')]])
