import warnings
warnings.simplefilter('ignore')
import numpy as np, pyPRISM
k = np.array([1e-4,1e-3,1e-2,3e-3, 0.0030679615757712823, 0.1,1,10,100,1e3])
def gsum(k,N,s):
    out=np.zeros_like(k)
    for i in range(N):
        for j in range(N):
            out+=np.exp(-k*k*s*s*abs(i-j)/6)
    return out/N
def fsum(k,N,l):
    E=np.sin(k*l)/(k*l); out=np.zeros_like(k)
    for t in range(-N+1,N):
        out+=(N-abs(t))*E**abs(t)
    return out/N
for N in [2,10,100,1000,10000]:
    g=pyPRISM.omega.Gaussian(sigma=1.0,length=N).calculate(k)
    t=np.zeros_like(k)
    E=np.exp(-k*k/6)
    for tau in range(-N+1,N): t+=(N-abs(tau))*E**abs(tau)
    t/=N
    print('G',N,g, '\n   ref',t)
    f=pyPRISM.omega.FreelyJointedChain(length=N,l=1.0).calculate(k)
    print('F',N,f,'\n   ref',fsum(k,N,1.0))
dk=pyPRISM.omega.DiscreteKoyama(sigma=1.0,l=1.0,length=10,lp=4.0/3.0)
print('DK',dk.calculate(k))
