import warnings
warnings.simplefilter('ignore')
import numpy as np, pyPRISM
bad=[]
drs=[0.1,0.05,0.025,0.01,0.2,0.3,0.7,1.0,0.0125,0.00625,1/3,0.15,0.075, 0.11, 0.003]
for dr in drs:
    for N in range(1,3000):
        d=pyPRISM.Domain(length=N,dr=dr)
        if len(d.r)!=N or len(d.k)!=N:
            bad.append((dr,N,len(d.r),len(d.k)))
print(len(bad), bad[:40])
bad=[]
for dk in [0.1,0.05,0.01,0.2,0.3,0.7,1.0,0.003, 0.0123]:
    for N in range(1,3000):
        d=pyPRISM.Domain(length=N,dk=dk)
        if len(d.r)!=N or len(d.k)!=N:
            bad.append((dk,N,len(d.r),len(d.k)))
print(len(bad), bad[:40])
