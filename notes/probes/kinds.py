import warnings,time,itertools
warnings.simplefilter('ignore')
import numpy as np, pyPRISM
cl=pyPRISM.closure; po=pyPRISM.potential; om=pyPRISM.omega
KINDS={'PY+HS':(lambda:cl.PY(),lambda:po.HardSphere()),'HNC+HS':(lambda:cl.HNC(),lambda:po.HardSphere()),'PYhc+HS':(lambda:cl.PY(apply_hard_core=True),lambda:po.HardSphere()),
 'HNChc+HCLJ':(lambda:cl.HNC(apply_hard_core=True),lambda:po.HardCoreLennardJones(epsilon=0.3)),'MSAhc+EXP':(lambda:cl.MSA(apply_hard_core=True),lambda:po.Exponential(epsilon=0.4,alpha=0.5)),
 'PY+EXP':(lambda:cl.PY(),lambda:po.Exponential(epsilon=0.4,alpha=0.5)),'HNC+HCLJ':(lambda:cl.HNC(),lambda:po.HardCoreLennardJones(epsilon=0.3)),
 'PY+LJ':(lambda:cl.PY(),lambda:po.LennardJones(epsilon=0.2,rcut=2.5,shift=True)),'HNC+WCA':(lambda:cl.HNC(),lambda:po.WeeksChandlerAndersen(epsilon=1.0)),'MSA+LJ':(lambda:cl.MSA(),lambda:po.LennardJones(epsilon=0.2,rcut=2.5,shift=True))}
OM={'single':lambda:om.SingleSite(),'gauss6':lambda:om.Gaussian(sigma=1.0,length=6),'fjc5':lambda:om.FreelyJointedChain(length=5,l=1.0),'ring6':lambda:om.GaussianRing(sigma=1.0,length=6)}
def mk(kind,omk,rho,kT,L=128,dr=0.1):
    s=pyPRISM.System(['A'],kT=kT); s.domain=pyPRISM.Domain(dr=dr,length=L); s.density['A']=rho; s.diameter['A']=1.0
    s.closure['A','A']=KINDS[kind][0](); s.potential['A','A']=KINDS[kind][1](); s.omega['A','A']=OM[omk](); return s
def portfolio(mkl):
    routes=[]
    for m,o in [('krylov',{'disp':False,'maxiter':100}),('df-sane',{'maxfev':1500}),('anderson',{'disp':False,'maxiter':300})]:
        P=mkl(1.0).createPRISM()
        try: r=P.solve(method=m,options=o); routes.append((m,bool(r.success)))
        except Exception as e: routes.append((m,False))
    # ramp
    x=None; ok=True
    for lam in [0.05,0.1,0.2,0.35,0.5,0.7,0.85,1.0]:
        P=mkl(lam).createPRISM()
        try: r=P.solve(guess=x,options={'disp':False,'maxiter':100}); ok=bool(r.success)
        except Exception: ok=False
        if not ok: break
        x=r.x
    routes.append(('ramp',ok)); return routes
from collections import Counter
cnt=Counter(); t0=time.time(); n=0
for kind in KINDS:
    for omk in OM:
        for rho in [0.2,0.5,0.8]:
            for kT in [0.8,2.5]:
                n+=1
                for m,ok in portfolio(lambda lam: mk(kind,omk,rho*lam,kT)): cnt[(kind,m)]+=ok; cnt[('ALL',m)]+=ok
                
print(n,'%.1fs'%(time.time()-t0))
for kind in list(KINDS)+['ALL']: print(kind,{m:cnt[(kind,m)] for m in ['krylov','df-sane','anderson','ramp']})
