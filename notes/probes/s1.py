import warnings, time
warnings.simplefilter('ignore')
import numpy as np, pyPRISM
from pyPRISM.core.Space import Space
def build(L=256,dr=0.1,rho=0.6,clos='PY',pot='HS',kT=1.0):
    s = pyPRISM.System(['A'],kT=kT)
    s.domain = pyPRISM.Domain(dr=dr,length=L)
    s.density['A']=rho
    s.diameter['A']=1.0
    s.closure['A','A']={'PY':pyPRISM.closure.PercusYevick,'HNC':pyPRISM.closure.HyperNettedChain}[clos]()
    s.potential['A','A']={'HS':pyPRISM.potential.HardSphere(),'LJ':pyPRISM.potential.LennardJones(epsilon=1.0)}[pot]
    s.omega['A','A']=pyPRISM.omega.SingleSite()
    return s
for L,dr in [(128,0.1),(256,0.1),(512,0.05),(1024,0.025),(2048,0.0125),(4096,0.00625)]:
  for rho in [0.3,0.6,0.8]:
    s=build(L,dr,rho)
    t=time.time(); P=s.createPRISM(); res=P.solve(options={'disp':False}); dt=time.time()-t
    eta=np.pi*rho/6
    g=pyPRISM.calculate.pair_correlation(P)['A','A']
    r=s.domain.r
    i=np.searchsorted(r,1.0+1e-9)
    # contact extrapolation
    gc=g[i]; 
    S=pyPRISM.calculate.structure_factor(P)['A','A']
    S0=(1-eta)**4/(1+2*eta)**2
    print(L,dr,rho,'succ',res.success,'nit',res.nit,'|F|',np.abs(res.fun).max(),'t%.2f'%dt,'g(first outside)',gc,'exact',(1+eta/2)/(1-eta)**2,'S(k0)',S[0],S0, 'maxg_in',np.abs(g[:i]).max())
