import warnings
warnings.simplefilter('ignore')
import numpy as np, pyPRISM
k=np.array([1e-4,1e-3,0.1,1,10.,100.,1000.])
for N,lp in [(2,1.43),(3,1.43),(10,1.43),(10,3.0),(12,4/3),(10,1.3334)]:
    o=pyPRISM.omega.DiscreteKoyama(sigma=1.0,l=1.0,length=N,lp=lp); v=o.calculate(k); print(N,lp,o.epsilon,np.round(v,5))
for bad in [dict(sigma=1.0,l=0.5,length=5,lp=2.0),dict(sigma=1.0,l=1.0,length=5,lp=1.0)]:
    try: pyPRISM.omega.DiscreteKoyama(**bad); print('accepted',bad)
    except ValueError as e: print('VE')
