import warnings,time
warnings.simplefilter('ignore')
import numpy as np, pyPRISM
exec(open('c6.py').read().split("s=build(2)")[0])
s=build(2); d=s.domain
import sys
mode=sys.argv[1]
N=d.length
if mode=='newr': d.r=np.arange(1,N+1)*d.dr
if mode=='newk': d.k=np.arange(1,N+1)*d.dk
if mode=='both': d.r=np.arange(1,N+1)*d.dr; d.k=np.arange(1,N+1)*d.dk
d.DST_II_coeffs = 2.0*np.pi *d.r*d._dr ; d.DST_III_coeffs = d.k * d.dk/(4.0*np.pi*np.pi); d.long_r=d.r.reshape((-1,1,1))
t=time.time(); P=s.createPRISM(); r=P.solve(options={'disp':False}); print(mode,r.success,r.nit,np.abs(r.fun).max(),'%.2fs'%(time.time()-t))
for ft in [1e-8,1e-10]:
    P=s.createPRISM(); r=P.solve(options={'disp':False,'fatol':ft,'maxiter':300}); print('   fatol',ft,r.success,r.nit,np.abs(r.fun).max())
