import warnings,time,itertools,sys
warnings.simplefilter('ignore')
import numpy as np, pyPRISM
exec(open('frag.py').read().split("tot=0")[0])
for N in [8,50]:
  for L,dr in [(128,0.1),(512,0.1),(1024,0.05)]:
    s=build(0.05,0.1,1.0,1.0,L=L,N=N,clos='PY')
    for m,o in [('krylov',{'disp':False,'maxiter':100}),('anderson',{'disp':False,'maxiter':300}),('broyden1',{'disp':False,'maxiter':300}),('df-sane',{}),('hybr',{})]:
        if m=='hybr' and L>128: continue
        P=s.createPRISM(); t=time.time()
        try: r=P.solve(method=m,options=o); print(N,L,dr,m,r.success,getattr(r,'nit',None),'%.2e'%np.abs(r.fun).max(),'%.2fs'%(time.time()-t))
        except Exception as e: print(N,L,dr,m,'EXC',type(e).__name__,str(e)[:60])
