import warnings
warnings.simplefilter('ignore')
import numpy as np, pyPRISM
def fam(rmax=25.6,nl=5):
    for n in range(nl):
        L=128*2**n; yield n,pyPRISM.Domain(dr=rmax/L,length=L)
for a in [0.5,1.0,2.0]:
    print('yukawa a',a)
    prev=None
    for n,d in fam():
        step=2**n; sel=np.arange(step-1,d.length,step); r=d.r[sel]; m=r>=0.2-1e-9
        f=np.exp(-a*d.r)/d.r; Fx=4*np.pi/(d.k**2+a*a)
        fb=d.to_real(Fx); e=np.abs(fb-f)[sel][m]; rr=r[m]
        # bound: first-order (rf)' = -a e^{-ar}: max a ; truncation: (1/(2pi^2 r)) * [ kF(k)|kmax / r + int |d(kF)/dk| / r ] ; kF = 4pi k/(k^2+a^2) ~ 4pi/k decreasing for k>a => total variation beyond kmax = kF(kmax)
        kmax=np.pi/d.dr; kF=4*np.pi*kmax/(kmax**2+a*a)
        trunc=(1/(2*np.pi**2*rr))*(2*kF/rr)
        bound=(a/rr)*d.dr*2+trunc
        print('  dr %.5f max err %.3e  max(err/bound) %.3f  ratio_prev %s'%(d.dr,e.max(),(e/bound).max(), '%.2f'%(prev/e.max()) if prev else '-')); prev=e.max()
        # forward
    prev=None
    for n,d in fam():
        f=np.exp(-a*d.r)/d.r; F=d.to_fourier(f)[:128]; k=d.k[:128]; Fx=4*np.pi/(k**2+a*a)
        e=np.abs(F-Fx); C=4*np.pi*(1/a)  # 4pi int r|f| dr = 4pi int e^{-ar} dr = 4pi/a
        print('  fwd dr %.5f max err %.3e bound %.3e ratio_prev %s'%(d.dr,e.max(),C*d.dr,'%.2f'%(prev/e.max()) if prev else '-')); prev=e.max()
for s in [0.5,1.0,2.0]:
    print('gauss',s); prev=None;prevb=None
    for n,d in fam():
        step=2**n; sel=np.arange(step-1,d.length,step); r=d.r[sel]; m=r>=0.2-1e-9
        f=np.exp(-d.r**2/(2*s*s)); F=d.to_fourier(f)[:128]; k=d.k[:128]; Fx=(2*np.pi*s*s)**1.5*np.exp(-k**2*s*s/2)
        e=np.abs(F-Fx); C=4*np.pi*s*s
        Fxf=(2*np.pi*s*s)**1.5*np.exp(-d.k**2*s*s/2); fb=d.to_real(Fxf); eb=np.abs(fb-f)[sel][m]
        # (rf)' = (1 - r^2/s^2) e^{-r^2/2s^2}: max 1
        bb=(1.0/r[m])*d.dr*2
        print('  dr %.5f fwd err %.3e bound %.3e r %s | bwd max(err/bound) %.3f r %s'%(d.dr,e.max(),C*d.dr,'%.2f'%(prev/e.max()) if prev else '-',(eb/bb).max(),'%.2f'%(prevb/eb.max()) if prevb else '-')); prev=e.max(); prevb=eb.max()
