import warnings
warnings.simplefilter('ignore')
import numpy as np, pyPRISM
bad=0;n=0
for dr in [0.1,0.05,0.025,0.01,0.2,0.3,0.7,1.0,0.0125,1/3,0.15,0.11,0.003]:
    for N in range(1,3000):
        for kw in ({'dr':dr},{'dk':dr}):
            d=pyPRISM.Domain(length=N,**kw); n+=1
            if len(d.r)!=N or len(d.k)!=N: bad+=1
print('bad',bad,'of',n)
d=pyPRISM.Domain(length=100,dr=0.1); f=np.exp(-d.r); print(np.abs(d.to_real(d.to_fourier(f))-f).max())
d.length=200; f=np.exp(-d.r); print(np.abs(d.to_real(d.to_fourier(f))-f).max(), d.dk, np.pi/(0.1*200))
o=pyPRISM.omega.DiscreteKoyama(sigma=1.0,l=1.0,length=10,lp=1.43); print(o.calculate(np.array([1e-3,0.1,1,10.])))
o=pyPRISM.omega.NFJC(length=5,l=1.0); print(o.calculate(np.array([0.01,0.1,0.5,1.0,2.0,30.3])))
