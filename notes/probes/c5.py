import warnings,itertools
warnings.simplefilter('ignore')
import numpy as np, pyPRISM
from pyPRISM import MatrixArray, Space
C=pyPRISM.calculate
def base(n,L=64,dr=0.1,kT=1.7):
    types=list('ABCD')[:n]
    s=pyPRISM.System(types,kT=kT); s.domain=pyPRISM.Domain(dr=dr,length=L)
    for t,rho,d in zip(types,[0.11,0.23,0.07,0.31],[1.0,1.3,0.8,1.0]): s.density[t]=rho; s.diameter[t]=d
    s.closure[types,types]=pyPRISM.closure.PY(); s.potential[types,types]=pyPRISM.potential.HardSphere(); s.omega[types,types]=pyPRISM.omega.NoIntra()
    for t in types: s.omega[t,t]=pyPRISM.omega.SingleSite()
    return s
n=3; s=base(n); P=s.createPRISM(); d=s.domain; k=d.k; L=64
def symfun(seed,x):
    out=np.zeros((L,n,n))
    for i in range(n):
        for j in range(i,n):
            v=(0.3+0.1*i+0.07*j+0.05*seed)*np.exp(-x/(1.0+0.2*i+0.1*j))*np.cos(x*(0.5+0.1*seed))
            out[:,i,j]=v; out[:,j,i]=v
    return out
P.totalCorr=MatrixArray(length=L,rank=n,data=symfun(1,k),space=Space.Fourier,types=s.types)
P.directCorr=MatrixArray(length=L,rank=n,data=-symfun(2,k),space=Space.Fourier,types=s.types)
Om=symfun(3,k)+np.eye(n)[None]; P.omega=MatrixArray(length=L,rank=n,data=Om.copy(),space=Space.Fourier,types=s.types)
rho=np.array([0.11,0.23,0.07]); dia=np.array([1.0,1.3,0.8])
site=np.add.outer(rho,rho); np.fill_diagonal(site,rho); pair=np.outer(rho,rho)
S=C.structure_factor(P,normalize=False).data; print('S unnorm',np.abs(S-(P.omega.data+pair*P.totalCorr.data)).max())
Sn=C.structure_factor(P).data; print('S norm',np.abs(Sn-(P.omega.data+pair*P.totalCorr.data)/site).max())
chi=C.chi(P,extrapolate=False); Cd=P.directCorr.data
for (i,j) in [(0,1),(0,2),(1,2)]:
    a,b=s.types[i],s.types[j]
    R=(dia[i]/dia[j])**3
    raw=(1/R)*Cd[:,i,i]+R*Cd[:,j,j]-2*Cd[:,i,j]
    ratio=chi[a,b]/raw
    print('chi',a,b,'prefactor const?',ratio.std()/abs(ratio.mean()),'prefactor',ratio.mean(),'cf rho/2',rho.sum()/2, 'sym',np.array_equal(chi[a,b],chi[b,a]))
# psi
for cl in ['HNC','PY']:
    psi=C.solvation_potential(P,closure=cl)
    CSC=np.einsum('lij,ljk,lkm->lim',Cd,Sn,Cd)
    ref=-1.7*CSC if cl=='HNC' else -1.7*np.log(1+CSC)
    refr=np.zeros_like(ref)
    for i in range(n):
        for j in range(n): refr[:,i,j]=d.to_real(ref[:,i,j])
    print('psi',cl,psi.space,np.nanmax(np.abs(psi.data-refr)))
print('B2',C.second_virial(P,extrapolate=False)['A','C'],-0.5*P.totalCorr.data[0,0,2])
x=k[:3]; y=-0.5*P.totalCorr.data[:3,0,2]; L0=sum(y[a]*np.prod([(0-x[b])/(x[a]-x[b]) for b in range(3) if b!=a]) for a in range(3)); print('B2e',C.second_virial(P)['C','A'],L0)
