import warnings
warnings.simplefilter('ignore')
import numpy as np, pyPRISM
exec(open('c6.py').read().split("s=build(2)")[0])
s=build(2); d=s.domain
print(len(d.r),d.r[9:12].tolist(),d.k[:2].tolist(),d.dk)
P=s.createPRISM()
for m in ['krylov']:
    r=P.solve(options={'disp':False}); print(r.success,r.nit,np.abs(r.fun).max(), r.message if hasattr(r,'message') else '')
for (a,b) in [('A','A'),('A','B'),('B','B')]:
    u=P.sys.closure[a,b].potential; print(a,b,'core pts',int((u>1).sum()))
