import warnings,itertools,os,tempfile
warnings.simplefilter('ignore')
import numpy as np, pyPRISM
cl=pyPRISM.closure; po=pyPRISM.potential
G=np.array([-1e3,-2,-1,-0.5,0,0.5,1,3,1e3]); U=np.array([-2,-0.3,0,0.3,2,1e6])
issues=[]
def ref(name,g,u):
    with np.errstate(all='ignore'):
        if name=='PY': return (np.exp(-u)-1)*(1+g)
        if name=='HNC': return np.exp(g-u)-1-g
        if name=='MSA': return -u
for name,cls,ali in [('PY',cl.PercusYevick,cl.PY),('HNC',cl.HyperNettedChain,cl.HNC),('MSA',cl.MeanSphericalApproximation,cl.MSA)]:
    for hc in [False,True]:
        sigma=1.0
        r=np.array([0.5,0.9,1.0,1.1,2.0])
        for perm in itertools.product(range(len(G)),repeat=1):
            pass
        # full product gamma x u at each r position: build arrays
        for gi,ui in itertools.product(range(len(G)),range(len(U))):
            g=np.full_like(r,G[gi]); u=np.full_like(r,U[ui]); g0=g.copy(); u0=u.copy()
            c1=cls(apply_hard_core=hc); c1.potential=u; c1.sigma=sigma
            c2=ali(apply_hard_core=hc); c2.potential=u; c2.sigma=sigma
            with np.errstate(all='ignore'):
                v=c1.calculate(r,g); v2=c2.calculate(r,g)
            e=ref(name,g,u)
            if hc: e=np.where(r>sigma,e,-1-g)
            if not np.array_equal(v,e,equal_nan=True): issues.append((name,hc,G[gi],U[ui],v,e))
            if not np.array_equal(v,v2,equal_nan=True): issues.append(('alias',name))
            if not(np.array_equal(g,g0) and np.array_equal(u,u0)): issues.append(('mut',name))
print('closure issues',len(issues),issues[:3])
# linearisation
for name,cls in [('PY',cl.PY),('HNC',cl.HNC),('MSA',cl.MSA),('MS',cl.MS)]:
    out=[]
    for eps in [1e-2,1e-3,1e-4]:
        g=np.array([0.7,-0.4,1.0])*eps; u=np.array([0.5,1.0,-0.8])*eps
        c=cls(); c.potential=u; c.sigma=1.0
        out.append(np.abs(c.calculate(np.array([1.,2.,3.]),g)+u).max()/eps**2)
    print(name,'|c+u|/eps^2',out)
# potentials
r=pyPRISM.Domain(dr=0.05,length=200).r
lj=po.LennardJones(epsilon=0.7,sigma=1.1,rcut=2.5,shift=True); v=lj.calculate(r); print('LJ beyond rcut zero',np.all(v[r>2.5]==0),'at rcut-',v[r<=2.5][-1])
lj2=po.LennardJones(epsilon=0.7,sigma=1.1,rcut=2.5,shift=False); v2=lj2.calculate(r); print('LJ unshifted jump',v2[r<=2.5][-1])
w=po.WeeksChandlerAndersen(epsilon=1.3,sigma=1.1); vw=w.calculate(r); print('WCA min',vw.min(),'zero beyond',np.all(vw[r>1.1*2**(1/6)]==0), 'repeat equal',np.array_equal(vw,w.calculate(r)))
wn=po.WeeksChandlerAndersen(epsilon=-1.0,sigma=1.0); print('WCA eps<0 min',wn.calculate(r).min())
# C12
dom=pyPRISM.Domain(dr=0.1,length=16); k=dom.k
a=np.linspace(1,2,16); o=pyPRISM.omega.FromArray(a,k=k.copy()); out=o.calculate(k); a[3]=99; print('FromArray iso',out[3]!=99, np.array_equal(out,np.linspace(1,2,16)))
for j in [0,7,15]:
    for d in [0.9e-5,1.2e-5]:
        kk=k.copy(); kk[j]*=(1+d)
        o=pyPRISM.omega.FromArray(np.ones(16),k=kk)
        try: o.calculate(k); res='ok'
        except AssertionError: res='AE'
        print('k pert',j,d,res, 'allclose',np.allclose(kk,k))
