import warnings,time,itertools,sys
warnings.simplefilter('ignore')
import numpy as np, pyPRISM
exec(open('kinds.py').read().split("def mk(")[0])
kinds=list(KINDS)
def mk2(kAA,kAB,kBB,lam,kT=1.0,L=128,dr=0.1):
    s=pyPRISM.System(['A','B'],kT=kT); s.domain=pyPRISM.Domain(dr=dr,length=L)
    s.density['A']=0.25*lam; s.density['B']=0.4*lam; s.diameter['A']=1.0; s.diameter['B']=1.4
    for (a,b),k in zip([('A','A'),('A','B'),('B','B')],[kAA,kAB,kBB]):
        s.closure[a,b]=KINDS[k][0](); s.potential[a,b]=KINDS[k][1]()
    s.omega['A','A']=om.Gaussian(sigma=1.0,length=6); s.omega['B','B']=om.SingleSite(); s.omega['A','B']=om.NoIntra()
    return s
from multiprocessing import Pool
def work(tr):
    import warnings; warnings.simplefilter('ignore')
    res=[]
    for m,o in [('krylov',{'disp':False,'maxiter':100}),('df-sane',{'maxfev':1500}),('anderson',{'disp':False,'maxiter':300})]:
        P=mk2(*tr,1.0).createPRISM()
        try: r=P.solve(method=m,options=o); res.append(bool(r.success))
        except Exception: res.append(False)
    return tr,res
if __name__=='__main__':
    trs=list(itertools.product(kinds,repeat=3)); t0=time.time()
    with Pool(16) as p: out=p.map(work,trs,chunksize=8)
    a=np.array([r for _,r in out]); print(len(trs),'krylov/dfsane/anderson',a.sum(0),'any',a.any(1).sum(),'%.1fs'%(time.time()-t0))
    from collections import Counter
    bad=Counter()
    for tr,r in out:
        if not any(r): 
            for k in set(tr): bad[k]+=1
    print(bad)
