import warnings
warnings.simplefilter('ignore')
import numpy as np, pyPRISM
from scipy.special import erf
def fam(rmax=25.6):
    for n in range(0,5):
        L=128*2**n; yield pyPRISM.Domain(dr=rmax/L,length=L)
# Gaussian f=A exp(-r^2/(2 s^2)) -> A (2 pi s^2)^{3/2} exp(-k^2 s^2/2)
for s in [0.5,1.0,2.0]:
    print('gauss s',s)
    for d in fam():
        f=np.exp(-d.r**2/(2*s*s)); F=d.to_fourier(f); Fx=(2*np.pi*s*s)**1.5*np.exp(-d.k**2*s*s/2)
        # fixed k: compare at k indices common: k_j=(j+1)dk, dk same for all (pi/rmax) -> first 128 comparable
        e=np.abs(F[:128]-Fx[:128]); 
        fb=d.to_real(Fx); eb=np.abs(fb-f)
        # fixed r>0: r>=0.2
        m=d.r>=0.2-1e-12
        print('  dr %.5f fwd max err %.3e (rel to F0 %.3e) at k0 err %.3e | bwd max err(r>=.2) %.3e  r-weighted %.3e'%(d.dr,e.max(),e.max()/Fx[0],e[0],eb[m].max(),(d.r*eb).max()))
# Yukawa f=exp(-a r)/r -> 4 pi/(k^2+a^2)
for a in [0.5,1.0,2.0]:
    print('yukawa a',a)
    for d in fam():
        f=np.exp(-a*d.r)/d.r; F=d.to_fourier(f); Fx=4*np.pi/(d.k**2+a*a)
        e=np.abs(F[:128]-Fx[:128]); fb=d.to_real(Fx); m=d.r>=0.2-1e-12; eb=np.abs(fb-f)
        print('  dr %.5f fwd max err %.3e rel %.3e | bwd err(r>=.2) %.3e'%(d.dr,e.max(),(e/Fx[:128]).max(),eb[m].max()))
# sphere (step) f=1 r<R -> 4 pi (sin kR - kR cos kR)/k^3
for R in [1.0,2.5]:
    print('sphere',R)
    for d in fam():
        f=(d.r<=R)*1.0; F=d.to_fourier(f); kR=d.k*R; Fx=4*np.pi*(np.sin(kR)-kR*np.cos(kR))/d.k**3
        e=np.abs(F[:128]-Fx[:128]); print('  dr %.5f fwd max err %.3e rel to F0 %.3e'%(d.dr,e.max(),e.max()/(4*np.pi*R**3/3)))
