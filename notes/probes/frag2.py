import warnings,time,itertools,sys
warnings.simplefilter('ignore')
import numpy as np, pyPRISM
exec(open('frag.py').read().split("tot=0")[0])
def solve_direct(mk,maxiter):
    P=mk(1.0).createPRISM()
    try: r=P.solve(options={'disp':False,'maxiter':maxiter}); return r.success,P
    except Exception as e: return False,None
def solve_ramp(mk,steps,maxiter=60):
    x=None
    for lam in steps:
        P=mk(lam).createPRISM()
        try: r=P.solve(guess=x,options={'disp':False,'maxiter':maxiter})
        except Exception: return False,None
        if not r.success: return False,None
        x=r.x
    return True,P
cfgs=list(itertools.product([0.05,0.2,0.4],[0.1,0.3],[1.0,1.2,1.5],[128],[1,8,50],['PY','HNC']))
for name,fn in [('direct200',lambda mk: solve_direct(mk,200)),('ramp4',lambda mk: solve_ramp(mk,[0.25,0.5,0.75,1.0])),('ramp8',lambda mk: solve_ramp(mk,[0.05,0.1,0.2,0.35,0.5,0.7,0.85,1.0]))]:
    t0=time.time(); ok=0; fails=[]
    for rhoA,rhoB,dB,L,N,clos in cfgs:
        mk=lambda lam: build(rhoA*lam,rhoB*lam,dB,1.0,L=L,N=N,clos=clos)
        s,P=fn(mk); ok+=s
        if not s: fails.append((rhoA,rhoB,dB,N,clos))
    print(name,ok,len(cfgs),'%.1fs'%(time.time()-t0),fails[:10])
