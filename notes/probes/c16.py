import warnings,itertools
warnings.simplefilter('ignore')
import numpy as np, pyPRISM
items=['rhoA','rhoB','dA','dB','uAA','uAB','uBB','cAA','cAB','cBB','wAA','wAB','wBB','dom']
def build(missing):
    s=pyPRISM.System(['A','B'])
    if 'dom' not in missing: s.domain=pyPRISM.Domain(dr=0.1,length=64)
    if 'rhoA' not in missing: s.density['A']=0.1
    if 'rhoB' not in missing: s.density['B']=0.2
    if 'dA' not in missing: s.diameter['A']=1.0
    if 'dB' not in missing: s.diameter['B']=1.2
    for p in ['AA','AB','BB']:
        if 'u'+p not in missing: s.potential[p[0],p[1]]=pyPRISM.potential.HardSphere()
        if 'c'+p not in missing: s.closure[p[0],p[1]]=pyPRISM.closure.PY()
        if 'w'+p not in missing: s.omega[p[0],p[1]]=pyPRISM.omega.SingleSite() if p[0]==p[1] else pyPRISM.omega.NoIntra()
    return s
from collections import Counter
cnt=Counter()
for m in range(1<<14):
    missing={items[i] for i in range(14) if m>>i&1}
    s=build(missing)
    for f in ('createPRISM','solve'):
        try:
            getattr(s,f)() if f=='createPRISM' else s.solve(options={'disp':False})
            out='ok'
        except ValueError: out='VE'
        except Exception as e: out=type(e).__name__
        cnt[(len(missing)==0,f,out)]+=1
print(cnt)
