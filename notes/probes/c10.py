import warnings
warnings.simplefilter('ignore')
import numpy as np, pyPRISM
# contact classification: for dr in alphabet, sigma = literal m*dr decimal; which grid point near sigma is classed outside?
from decimal import Decimal
tot=0; bad=[]
for drs in ['0.1','0.05','0.025','0.2','0.01','0.125','0.25']:
    dr=float(drs); d=pyPRISM.Domain(dr=dr,length=512 if dr!=0.1 else 512)
    if len(d.r)!=512: print('skip grid len',drs,len(d.r)); 
    r=d.r
    for m in range(1,200):
        sig=float(Decimal(drs)*m)   # the decimal literal a user would type
        near=np.where(np.abs(r-sig)<1e-6)[0]
        if len(near)==0: continue
        tot+=1
        i=near[0]
        u=pyPRISM.potential.HardSphere(sigma=sig).calculate(r)
        if u[i]==0.0: bad.append((drs,m,sig,r[i]))
print(tot,len(bad),bad[:12])
# sigma from diameters
bad2=[];tot2=0
d=pyPRISM.Domain(dr=0.1,length=512); r=d.r
for a in range(5,40):
  for b in range(a,40):
    da=float(Decimal('0.1')*a); db=float(Decimal('0.1')*b); sig=(da+db)/2
    near=np.where(np.abs(r-sig)<1e-6)[0]
    if len(near)==0: continue
    tot2+=1
    if r[near[0]]>sig: bad2.append((da,db,sig,r[near[0]]))
print(tot2,len(bad2),bad2[:8])
