#!/usr/bin/env python3
"""Regenerates MANIFEST.json from the table below (only properties whose
module exists under mc/props are claimed)."""
import json, os
HERE = os.path.dirname(os.path.dirname(os.path.abspath(__file__)))
BASE = "cd /repo && /venv/bin/python -m pytest -ra -q -p no:cacheprovider --timeout=900 --continue-on-collection-errors"
T = {
 'C01': ('E1', '4/C01', 'exhaustive choice-tree enumeration of systems (rank 1-3, 12 interaction kinds per pair, omega sets incl. copolymer + third species, dr- and dk-built domains, four construction paths of the same specification) x solver routes on the real code with a per-evaluation monitor; residual-bounded oracle rebuilt from the spec',
         'Every system of a finite lattice (rank 1-3, all interaction kinds per pair, omega kinds, kT, densities, solver routes) is built and solved with the real code; after every cost evaluation and at every converged root the PRISM equation and each pair closure are checked against references rebuilt from the spec, bounded by the reported residual.',
         'Domain transforms define the r<->k correspondence (C07/C08); scipy.optimize.root; properties are conditional on convergence'),
 'C02': ('E1', '4/C02', 'exhaustive enumeration of (eta x refinement ladder x six base lengths incl. non-powers of two) and (potential x closure x kT x density ladder down to 1e-9) on the real solver; closed-form oracles with analytic error envelopes',
         'Complete product of packing fractions x six-level refinement ladder and of dilute-limit cases, each solved by the real code and compared with Wertheim-Thiele / Boltzmann-factor closed forms with error bounds proportional to dr taken from the analytic solution, plus shrink-under-refinement.',
         'finite ladders stand in for "all sufficiently fine domains"; Gauss-Legendre quadrature of closed forms'),
 'C03': ('E1', '4/C03', 'exhaustive enumeration of hard-core systems x trial-gamma alphabet with a closure-call monitor; exact c+gamma=-1 oracle',
         'For every hard-core system of the lattice and every trial vector of a finite alphabet the real cost function is evaluated and the closure output inside the core is checked bitwise; on converged roots |g| is bounded by the residual.',
         'contact points within 1e-6 of sigma are excluded (K2 is C10\'s)'),
 'C04': ('E1', '4/C04', 'exhaustive enumeration of paired systems (all type permutations, split ratios, energy scale factors); differential oracle between two real solves',
         'For every base system of the lattice, every permutation of the type list, every split ratio and every scale factor of finite alphabets, both formulations are solved by the real code and compared.',
         'both solves polished to 1e-11; comparison tolerance 1e-7'),
 'C05': ('E1', '4/C05', 'exhaustive enumeration of rank x data alphabet x space flags x flag values x ordered pairs on real PRISM objects; independent re-implementation of each definition',
         'Every calculate function is called on a fresh copy for every element of the product and compared with loop-based reference formulas.', 'reference formulas are the docstring mathematics'),
 'C06': ('E2', '4/C06', 'explicit-state BFS over call histories of the real object to abstract fixpoint + all call sequences to depth 2-5 without deduplication + all 2/3-call sequences on one uncopied object with every returned object held; differential oracle vs fresh solved object',
         'All histories over 16 operations on one solved PRISM object are explored on the real code: BFS with a canonical abstract state closes (fixpoint), and every sequence up to the depth bound is additionally enumerated without deduplication; each returned value and the stored arrays are compared with a fresh identically solved object.',
         'abstraction argument in DESIGN 4/C06; Domain transforms trusted (C07/C08)'),
 'C07': ('E1+E2', '4/C07', 'exhaustive enumeration of (length x spacing x constructor) and BFS over dr/dk/length setter histories (incl. nudged values, deep and shallow copies, decoy Domains) on the real Domain; differential vs fresh Domain + exact inverse/linearity/buffer identities on basis vectors; MatrixArray transforms over flags x memory layouts x failing calls',
         'Every length in a range x spacing alphabet and every setter history up to a depth is executed on the real Domain class; grids, conjugate spacing and transforms are compared with a freshly constructed Domain and with round-trip / linearity identities on full bases.',
         'scipy.fftpack.dst is trusted as a linear map'),
 'C08': ('E1', '4/C08', 'exhaustive enumeration of analytic families x widths x amplitudes x refinement ladder; closed-form 3-D transforms with analytic first-order error constants',
         'Forward and backward transforms of every family member on every ladder level are compared separately with closed forms, bounded by analytic constants times dr and required to shrink.', 'finite ladder'),
 'C09': ('E1+E2', '4/C09', 'all flag-assignment/copy/evaluate histories of one closure object to depth 4 (quick) / 6 (thorough) and exhaustive elementwise product (closure x alias x flag spelling x r-vs-sigma class x gamma x u alphabets incl. tiny and infinite values) and all vectors on tiny grids on the real closure classes; call histories (re-chained calls, two instances with different flags in all orders, valid call after a failed one); published relations re-implemented',
         'The complete product is evaluated on the real closure objects and compared with reference relations; non-interference is checked on all vectors over a small alphabet on 1-3 point grids.', 'published closure relations'),
 'C10': ('E1', '4/C10', 'exhaustive enumeration of potential x parameters x grids x sigma placements (every on-grid sigma) x diameter pairs on the real classes, plus all sigma-assignment/evaluation histories to depth 3/5 with results held, all construction orders of co-existing objects, wiring through a System; documented u(r) re-implemented',
         'Every potential class is evaluated for every element of the product and compared with the documented form including the contact rule.', 'documented forms'),
 'C11': ('E1', '4/C11', 'exhaustive enumeration of model x N x geometry x k alphabets (decades and every k of a set of Domains) on the real omega classes; explicit pair sums',
         'Every omega model is evaluated for every element of the product and compared with an explicit loop over separations, limits and bounds.', 'DiscreteKoyama moments from an independent moment propagation of the bond-angle model (refmodel/chains.py); NFJC reference by Gauss-Legendre over the exact Rayleigh-Treloar density'),
 'C12': ('E1', '4/C12', 'exhaustive enumeration of source layouts x (data, k) length relations x k perturbations (every single point, shift, rescale, NaN) x Domains on the real FromArray/FromFile/PRISM code, incl. retries, re-evaluation on another grid and repeated createPRISM; bit-identity or mandatory exception',
         'Every combination is executed; matching data must come back bit-for-bit, mismatching data must raise before a cost evaluation is possible.', 'numpy.allclose semantics'),
 'C13': ('E1+E2', '4/C13', 'exhaustive operator matrix (rank x length x operator x operand kind x in/out of place x 3x3 space flags) and all sequences to depth 3/4 over 19 in-place/observer operations (11 for IdentityMatrixArray) on the real MatrixArray with all out-of-place results held; per-matrix numpy reference',
         'Every operator/operand/flag combination and every short in-place history is executed on the real class and compared with a per-matrix loop reference, memory sharing and operand snapshots.', 'numpy elementwise arithmetic'),
 'C14': ('E2', '4/C14', 'explicit-state BFS (successors by deepcopy) over operation histories of the real PairTable/ValueTable for four label sets, nested/falsy/array/list-of-key-count values, against a dict reference model including the aliasing partition; complete product of nine real library value classes x six assignment forms x every victim pair with in-place mutation one level down',
         'All histories up to a depth over set/set-list/setUnset/apply/mutate/check/iterate are executed on the real tables and stepped alongside a plain-dict reference model.', 'depth-bounded, no fixpoint claim'),
 'C15': ('E2', '4/C15', 'explicit-state BFS to fixpoint + all sequences to a depth over assignment histories (scalar, list, iterator keys; nudged, irrational and trace values; three label sets) of the real Density/Diameter, and all interleavings of two live objects with rotated type lists; closed forms from a reference dict',
         'All assignment histories up to a depth over a 3-value alphabet are executed on the real classes; every derived quantity is compared with its closed form on every state.', 'depth-bounded'),
 'C16': ('E1+E2', '4/C16', 'exhaustive enumeration of all subsets of missing specification items and BFS over edit/create/solve histories of the real System (three type-name sets incl. a copolymer + third species); wiring oracle computed from the spec + differential vs freshly built System + snapshot digests + PRISM objects left untouched until after later edits',
         'All 2^14 subsets of removed items and all edit histories up to a depth are executed on the real System/PRISM classes.', 'depth-bounded histories'),
 'C18': ('E1', '4/C18', 'exhaustive enumeration of (site count x every molecule partition x frames x boxes x self / every cross split x chunk counts 1..N+2,16 x OpenMP team sizes x repetitions x all site orders for N<=4) on the compiled extension built from the working tree; direct Debye sum + bitwise determinism across team sizes and repetitions',
         'The extension is built from the working tree and every element of the product is executed on the compiled code; the curve is compared with the direct intramolecular Debye sum under the minimum image, and for a fixed chunk count it must be bitwise identical for every OpenMP team size and repetition.',
         'thread interleavings inside one OpenMP region are not enumerated (no controllable scheduler); float32 arithmetic inside the extension'),
 'C17': ('E1', '4/C17', 'exhaustive product of characteristic values x unit spellings x methods x argument shapes/layouts/dtypes, all ordered call pairs, all construction/use orders of two converters, omitted-argument constructions, copies, calls after a failed call on the real UnitConverter; SI-2019 exact constants',
         'The complete product is executed and compared with own formulas.', 'pint unit registry parses the unit strings'),
}
NA = []
checks = []
engines = {}
for pid in sorted(T):
    eng, ref, tech, text, note = T[pid]
    if not os.path.exists(os.path.join(HERE, 'mc', 'props', pid.lower() + '.py')):
        NA.append({'property_id': pid, 'reason': 'check not built yet in this round (planned: DESIGN.md %s)' % ref})
        continue
    checks.append({
        'property_id': pid,
        'quick_cmd': './check %s --tier quick' % pid,
        'thorough_cmd': './check %s --tier thorough' % pid,
        'evidence_file': 'evidence/%s.json' % pid,
        'replay_cmd_template': './check %s --replay {path}' % pid,
        'engine': eng,
        'level_claimed': {'category': 'model_checking', 'text': text, 'design_ref': 'DESIGN.md section ' + ref},
        'level_note': note,
        'technique': tech,
    })
    for e in eng.split('+'):
        engines.setdefault(e, []).append(pid)
man = {
 'version': 1,
 'setup_cmd': '/venv/bin/python tools/setup_check.py',
 'hooks': {'guard': 'PYPRISM_VERIF', 'enable': 'no source hooks are needed: checks import pyPRISM from /repo working tree and wrap instances from outside (./check exports PYPRISM_VERIF=1, which pyPRISM ignores)',
           'baseline_off_cmd': BASE, 'source_commits': [], 'add_only': True},
 'engines': [
   {'name': 'E1', 'path': 'mc/core.py', 'serves_properties': engines.get('E1', []), 'kind_free_text': 'exhaustive choice-tree (input lattice) enumeration on the real code, sharded over processes'},
   {'name': 'E2', 'path': 'mc/core.py', 'serves_properties': engines.get('E2', []), 'kind_free_text': 'explicit-state BFS over call histories of real objects with canonical state hash and reference model'}],
 'checks': checks,
 'not_applicable': sorted(NA, key=lambda d: d['property_id']),
 'notes': 'Known findings: known_findings.json (K1-K4 recorded, F1-F14 repaired by fix: commits in /repo).  Detection demonstration: seeded/ (329 property-breaking changes, 313 of them written by sub-agents that saw only the property text; catch matrix seeded/MATRIX.md) and refactors/ (64 behaviour-preserving changes on which every check stays silent); driver tools/seeded.py.  tools/run_all.sh runs every check for a list of seeds.  See DESIGN.md sections 4b, 5, 7, 9.',
}
json.dump(man, open(os.path.join(HERE, 'MANIFEST.json'), 'w'), indent=1)
print('checks:', [c['property_id'] for c in checks])
