#!/usr/bin/env python3
"""setup_cmd: nothing to build (pure Python).  Verifies the interpreter and the
libraries the checks need are present, offline."""
import sys
import numpy, scipy, pint  # noqa
print('python', sys.version.split()[0], 'numpy', numpy.__version__, 'scipy', scipy.__version__, 'pint', pint.__version__)
