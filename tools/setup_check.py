#!/usr/bin/env python3
"""setup_cmd: the checks are pure Python and import pyPRISM from the working tree, so there is nothing to build for
C01-C17.  C18 runs the Cython extension, which the check builds on demand from the working tree's Debyer.pyx into
/verif/build (git-ignored); this script verifies that the interpreter, the libraries and the compiler tool chain are
present offline and warms that build cache."""
import os
import shutil
import subprocess
import sys

HERE = os.path.dirname(os.path.dirname(os.path.abspath(__file__)))
import numpy, scipy, pint  # noqa
print('python', sys.version.split()[0], 'numpy', numpy.__version__, 'scipy', scipy.__version__, 'pint', pint.__version__)
try:
    import Cython
    cc = shutil.which('gcc') or shutil.which('cc')
    print('Cython', Cython.__version__, 'compiler', cc, subprocess.run([cc, '-dumpversion'], stdout=subprocess.PIPE, text=True).stdout.strip() if cc else None)
except Exception as e:                      # C18 will then report that the extension cannot be built
    print('WARNING: Cython / compiler not available:', e)
    sys.exit(0)
os.environ.setdefault('PYPRISM_REPO', '/repo')
sys.path[:0] = [os.environ['PYPRISM_REPO'], HERE]
try:
    import warnings
    warnings.simplefilter('ignore')
    from mc.props import c18
    mod, err = c18.ensure_built()
    print('Debyer extension:', 'built and importable' if mod is not None else 'NOT built: %s' % (err or '')[:300])
except Exception as e:
    print('WARNING: could not warm the Debyer build cache:', type(e).__name__, e)
