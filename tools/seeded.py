#!/usr/bin/env python3
"""Detection demonstration: run the checks against scratch copies of pyPRISM that carry one
seeded property-breaking change each (seeded/<id>/patch.diff).

  tools/seeded.py verify <id>...    # tests still pass with the patch? demo passes without / fails with?
  tools/seeded.py run <id>... [--checks C01,C06|all] [--tier quick] [-j 4]
  tools/seeded.py table              # catch matrix from seeded/*/result.json

Scratch worktrees live under /dev/shm (outside /repo and /verif) and are removed after every
run.  The checks are pointed at the scratch copy through PYPRISM_REPO and write evidence/replays
to a scratch directory through VERIF_OUT_DIR, so /verif/evidence is never touched and nothing is
ever applied to /repo itself by this tool.
"""
import argparse
import concurrent.futures as cf
import json
import os
import shutil
import subprocess
import sys
import tempfile
import time

HERE = os.path.dirname(os.path.dirname(os.path.abspath(__file__)))
SEEDED = os.path.join(HERE, 'seeded')
REPO = os.environ.get('PYPRISM_REPO', '/repo')
ALL = ['C%02d' % i for i in range(1, 19)]
PY = '/venv/bin/python'


def sh(cmd, cwd=None, env=None, timeout=None):
    t = time.time()
    try:
        p = subprocess.run(cmd, cwd=cwd, env=env, shell=isinstance(cmd, str), stdout=subprocess.PIPE,
                           stderr=subprocess.STDOUT, timeout=timeout, text=True, errors='replace')
        return p.returncode, p.stdout, time.time() - t
    except subprocess.TimeoutExpired as e:
        return 124, (e.stdout or '') + '\nTIMEOUT', time.time() - t


def scratch(mid, patched=True):
    base = tempfile.mkdtemp(prefix='seed_%s_' % mid, dir='/dev/shm')
    wt = os.path.join(base, 'repo')
    rc, out, _ = sh(['git', '-C', REPO, 'worktree', 'add', '--detach', '-q', wt, 'HEAD'])
    if rc:
        raise RuntimeError(out)
    if patched:
        rc, out, _ = sh(['git', '-C', wt, 'apply', os.path.join(SEEDED, mid, 'patch.diff')])
        if rc:
            drop(base)
            raise RuntimeError('patch does not apply: ' + out)
    return base, wt


def drop(base):
    wt = os.path.join(base, 'repo')
    sh(['git', '-C', REPO, 'worktree', 'remove', '--force', wt])
    shutil.rmtree(base, ignore_errors=True)
    sh(['git', '-C', REPO, 'worktree', 'prune'])


def demo_file(mid):
    for n in ('demo.py', 'demo_test.py'):
        p = os.path.join(SEEDED, mid, n)
        if os.path.exists(p):
            return p
    return None


def verify(mid):
    res = {'id': mid}
    env = dict(os.environ, PYTHONDONTWRITEBYTECODE='1', OMP_NUM_THREADS='1', OPENBLAS_NUM_THREADS='1')
    for patched in (False, True):
        base, wt = scratch(mid, patched)
        try:
            e = dict(env, PYTHONPATH=wt)
            d = demo_file(mid)
            if d is not None:
                rc, out, dt = sh([PY, d], cwd=base, env=e, timeout=600)
                res['demo_rc_%s' % ('patched' if patched else 'clean')] = rc
                res['demo_tail_%s' % ('patched' if patched else 'clean')] = out.strip().splitlines()[-3:]
            if patched:
                rc, out, dt = sh([PY, '-m', 'pytest', '-q', '-p', 'no:cacheprovider', '--timeout=900',
                                  '--continue-on-collection-errors', '-x'], cwd=wt, env=env, timeout=1800)
                res['tests_rc'] = rc
                res['tests_tail'] = out.strip().splitlines()[-1:]
        finally:
            drop(base)
    res['ok'] = (res.get('demo_rc_clean', 0) == 0 and res.get('demo_rc_patched', 1) != 0 and res['tests_rc'] == 0)
    return res


def run_checks(mid, checks, tier, nproc):
    base, wt = scratch(mid, True)
    out_dir = os.path.join(base, 'out')
    os.makedirs(out_dir)
    res = {'id': mid, 'tier': tier, 'checks': {}}
    try:
        env = dict(os.environ, PYPRISM_REPO=wt, VERIF_OUT_DIR=out_dir, VERIF_NPROC=str(nproc), TMPDIR=base)
        for c in checks:
            rc, out, dt = sh([os.path.join(HERE, 'check'), c, '--tier', tier], cwd=HERE, env=env, timeout=3600)
            lines = out.strip().splitlines()
            viol = [l for l in lines if l.startswith('VIOLATION')]
            first = ''
            for i, l in enumerate(lines):
                if l.startswith('VIOLATION') and i + 1 < len(lines):
                    first = lines[i + 1].strip()[:300]
                    break
            res['checks'][c] = {'rc': rc, 'violations': len(viol), 'wall_s': round(dt, 1), 'first': first,
                                'tail': lines[-1][:300] if lines else ''}
            if rc not in (0, 1):
                res['checks'][c]['log_tail'] = lines[-12:]
    finally:
        drop(base)
    return res


def load_meta(mid):
    p = os.path.join(SEEDED, mid, 'meta.json')
    return json.load(open(p)) if os.path.exists(p) else {}


def main():
    ap = argparse.ArgumentParser()
    ap.add_argument('cmd', choices=['verify', 'run', 'table'])
    ap.add_argument('ids', nargs='*')
    ap.add_argument('--checks', default='own')
    ap.add_argument('--tier', default='quick')
    ap.add_argument('-j', type=int, default=4)
    ap.add_argument('--dir', default='seeded', help="'seeded' (property-breaking changes) or 'refactors' (behaviour-preserving changes: every check must stay silent)")
    a = ap.parse_args()
    global SEEDED
    SEEDED = os.path.join(HERE, a.dir)
    ids = a.ids or sorted(d for d in os.listdir(SEEDED) if os.path.isdir(os.path.join(SEEDED, d)))
    if a.cmd == 'verify':
        with cf.ThreadPoolExecutor(a.j) as ex:
            for r in ex.map(verify, ids):
                print(json.dumps(r))
                sys.stdout.flush()
                with open(os.path.join(SEEDED, r['id'], 'verify.json'), 'w') as fh:
                    json.dump(r, fh, indent=1, sort_keys=True)
    elif a.cmd == 'run':
        nproc = max(1, 16 // a.j)

        def job(mid):
            if a.checks == 'own':
                cs = [load_meta(mid).get('property', mid[:3])]
            elif a.checks == 'prev':
                # the check of the targeted property plus every check that caught this change in an earlier run
                cs = {load_meta(mid).get('property', mid[:3])}
                rp = os.path.join(SEEDED, mid, 'result.json')
                if os.path.exists(rp):
                    for tier_res in json.load(open(rp)).values():
                        cs.update(c for c, v in tier_res.items() if v.get('rc') == 1)
                cs = sorted(c for c in cs if c in ALL + ['C18'])
            elif a.checks == 'all':
                cs = ALL
            else:
                cs = a.checks.split(',')
            return run_checks(mid, cs, a.tier, nproc)
        with cf.ThreadPoolExecutor(a.j) as ex:
            for r in ex.map(job, ids):
                p = os.path.join(SEEDED, r['id'], 'result.json')
                old = json.load(open(p)) if os.path.exists(p) else {}
                key = r['tier']
                old.setdefault(key, {}).update(r['checks'])
                with open(p, 'w') as fh:
                    json.dump(old, fh, indent=1, sort_keys=True)
                print(r['id'], ' '.join('%s:%s' % (c, 'CAUGHT' if v['rc'] == 1 else ('silent' if v['rc'] == 0 else 'ERR%d' % v['rc']))
                                       for c, v in sorted(r['checks'].items())))
                sys.stdout.flush()
    else:
        rows = []
        for mid in ids:
            p = os.path.join(SEEDED, mid, 'result.json')
            if not os.path.exists(p):
                continue
            r = json.load(open(p))
            m = load_meta(mid)
            for tier in sorted(r):
                caught = sorted(c for c, v in r[tier].items() if v['rc'] == 1)
                silent = sorted(c for c, v in r[tier].items() if v['rc'] == 0)
                err = sorted(c for c, v in r[tier].items() if v['rc'] not in (0, 1))
                rows.append((mid, m.get('property'), tier, caught, silent, err))
        lines = ['| seeded change | breaks | tier | caught by | silent | exit 2 (nothing decided) |', '|---|---|---|---|---|---|']
        for row in rows:
            print('%-10s target=%s tier=%-8s caught_by=%s%s' % (row[0], row[1], row[2], ','.join(row[3]) or '-',
                                                                ('  harness_err=' + ','.join(row[5])) if row[5] else ''))
            lines.append('| %s | %s | %s | %s | %d checks | %s |' % (row[0], row[1], row[2], ', '.join(row[3]) or '**none**', len(row[4]), ', '.join(row[5]) or ''))
        with open(os.path.join(SEEDED, 'MATRIX.md'), 'w') as fh:
            fh.write('# Catch matrix (generated by tools/seeded.py table)\n\n' + '\n'.join(lines) + '\n')


if __name__ == '__main__':
    main()
