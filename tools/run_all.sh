#!/bin/bash
# tools/run_all.sh [quick|thorough] [seed...]   - every claimed check once per seed, serially; summary at the end.
# Exit status 0 iff every run exited 0.
HERE="$(cd "$(dirname "${BASH_SOURCE[0]}")/.." && pwd)"
tier="${1:-quick}"; shift
seeds="${*:-0}"
rc_all=0
for seed in $seeds; do
  for i in 01 02 03 04 05 06 07 08 09 10 11 12 13 14 15 16 17 18; do
    s=$(date +%s)
    out=$(VERIF_SEED=$seed "$HERE/check" C$i --tier "$tier" 2>&1); rc=$?
    e=$(date +%s)
    nv=$(printf '%s\n' "$out" | grep -c '^VIOLATION')
    echo "seed=$seed C$i rc=$rc ${nv} violation lines $((e-s))s | $(printf '%s\n' "$out" | tail -1 | cut -c1-160)"
    [ $rc -ne 0 ] && rc_all=1 && printf '%s\n' "$out" | grep -A1 '^VIOLATION\|HARNESS' | head -8
  done
done
exit $rc_all
