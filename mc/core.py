"""Shared bookkeeping of the model-checking machinery (DESIGN.md section 3).

A `Rec` collects what one run (or one worker of a run) explored: counters,
digests of distinct observed outcomes, a few written-out samples and the
violations found.  Workers return `Rec.to_dict()`; the parent merges them in
submission order so the result does not depend on scheduling.
"""
from __future__ import annotations

import hashlib
import json
import multiprocessing as mp
import os
import sys
import time

import numpy as np

VERIF_DIR = os.path.dirname(os.path.dirname(os.path.abspath(__file__)))
REPO = os.environ.get('PYPRISM_REPO', '/repo')
MAX_VIOL_KEPT = 200          # violation records kept per Rec (all are counted)
MAX_SAMPLES = 6
PER_SIG = 4                  # records kept per distinct tag signature (classification is by tags)


class HarnessError(Exception):
    """The harness could not decide anything (exit code 2, never a verdict)."""


# --------------------------------------------------------------------------
# digests / json helpers

def _jsonable(o):
    if isinstance(o, dict):
        return {str(k): _jsonable(v) for k, v in o.items()}
    if isinstance(o, (list, tuple)):
        return [_jsonable(v) for v in o]
    if isinstance(o, np.ndarray):
        return _jsonable(o.tolist())
    if isinstance(o, (np.floating,)):
        return float(o)
    if isinstance(o, (np.integer,)):
        return int(o)
    if isinstance(o, (np.bool_,)):
        return bool(o)
    if isinstance(o, float):
        if o != o:
            return 'nan'
        if o in (float('inf'), float('-inf')):
            return 'inf' if o > 0 else '-inf'
        return o
    if isinstance(o, (str, int, bool)) or o is None:
        return o
    return repr(o)


def jdump(o):
    return json.dumps(_jsonable(o), sort_keys=True)


def digest_array(a, digits=9):
    """Digest of an array rounded to `digits` significant digits of its scale."""
    a = np.asarray(a, dtype=float)
    if a.size == 0:
        return 'empty'
    fin = np.isfinite(a)
    scale = float(np.max(np.abs(a[fin]))) if fin.any() else 0.0
    if scale == 0.0:
        q = np.zeros(a.shape, dtype=np.int64)
        e = 0
    else:
        e = int(np.floor(np.log10(scale)))
        with np.errstate(invalid='ignore'):
            q = np.where(fin, np.round(a / 10.0 ** e * 10 ** digits), -7e18).astype(np.int64)
    h = hashlib.blake2b(digest_size=8)
    h.update(str(a.shape).encode())
    h.update(str(e).encode())
    h.update(q.tobytes())
    return h.hexdigest()


def digest(o, digits=9):
    if isinstance(o, np.ndarray):
        return digest_array(o, digits)
    if isinstance(o, (float, np.floating)):
        return digest_array(np.array([o]), digits)
    if isinstance(o, (list, tuple)):
        return hashlib.blake2b(('|'.join(digest(x, digits) for x in o)).encode(), digest_size=8).hexdigest()
    if isinstance(o, dict):
        return digest([(k, o[k]) for k in sorted(o, key=str)], digits)
    return hashlib.blake2b(repr(o).encode(), digest_size=8).hexdigest()


# --------------------------------------------------------------------------

class Rec(object):
    def __init__(self, pid):
        self.pid = pid
        self.c = {}                 # named counters
        self.outcomes = set()       # digests of distinct non-trivial outcomes
        self.samples = []
        self.viols = []             # dicts: case,msg,tags,detail (at most PER_SIG per tag signature)
        self.sigs = {}              # tag signature -> number of violations with these tags
        self.nviol = 0
        self.notes = {}             # free-form evidence extras (last writer wins)

    # counters ------------------------------------------------------------
    def count(self, key, n=1):
        self.c[key] = self.c.get(key, 0) + n

    def state(self, n=1):
        self.count('states', n)

    def trans(self, n=1):
        self.count('transitions', n)

    def trace(self, n=1):
        self.count('traces', n)

    def evaln(self, n=1):
        self.count('evaluations', n)

    def outcome(self, obj, digits=9):
        """Register an observed, non-trivial outcome."""
        self.outcomes.add(obj if isinstance(obj, str) and len(obj) == 16 else digest(obj, digits))

    def sample(self, case):
        if len(self.samples) < MAX_SAMPLES:
            self.samples.append(_jsonable(case))

    def note(self, key, val):
        self.notes[key] = _jsonable(val)

    # violations ----------------------------------------------------------
    def fail(self, case, msg, tags=None, detail=None, repro=None):
        self.nviol += 1
        sig = jdump(tags or {})
        self.sigs[sig] = self.sigs.get(sig, 0) + 1
        if self.sigs[sig] <= PER_SIG and (len(self.viols) < MAX_VIOL_KEPT or self.sigs[sig] == 1):
            self.viols.append({'case': _jsonable(case), 'msg': str(msg),
                               'tags': _jsonable(tags or {}),
                               'detail': _jsonable(detail or {}),
                               'repro': repro})

    # merge ---------------------------------------------------------------
    def to_dict(self):
        return {'pid': self.pid, 'c': self.c, 'outcomes': sorted(self.outcomes),
                'samples': self.samples, 'viols': self.viols, 'nviol': self.nviol, 'sigs': self.sigs,
                'notes': self.notes}

    def merge(self, d):
        if isinstance(d, Rec):
            d = d.to_dict()
        for k, v in d['c'].items():
            self.c[k] = self.c.get(k, 0) + v
        self.outcomes.update(d['outcomes'])
        for s in d['samples']:
            if len(self.samples) < MAX_SAMPLES:
                self.samples.append(s)
        self.nviol += d['nviol']
        kept = {}
        for v in self.viols:
            k = jdump(v['tags'])
            kept[k] = kept.get(k, 0) + 1
        for v in d['viols']:
            k = jdump(v['tags'])
            if kept.get(k, 0) < PER_SIG and (len(self.viols) < MAX_VIOL_KEPT or kept.get(k, 0) == 0):
                self.viols.append(v)
                kept[k] = kept.get(k, 0) + 1
        for k, n in d.get('sigs', {}).items():
            self.sigs[k] = self.sigs.get(k, 0) + n
        for k, v in d['notes'].items():
            self.notes[k] = v


# --------------------------------------------------------------------------
# parallel map over shards of a choice tree

def _init_worker():
    for v in ('OMP_NUM_THREADS', 'OPENBLAS_NUM_THREADS', 'MKL_NUM_THREADS'):
        os.environ[v] = '1'
    import warnings
    warnings.simplefilter('ignore')


def nproc():
    try:
        n = int(os.environ.get('VERIF_NPROC', '0'))
    except ValueError:
        n = 0
    return n if n > 0 else min(16, os.cpu_count() or 1)


def raised_in_library(exc):
    """True when some frame of the traceback is pyPRISM code and the innermost Python frame is pyPRISM code or a library it
    calls (numpy/scipy C code has no frame): the library under test raised, not the harness."""
    tb = exc.__traceback__
    last = None
    while tb is not None:
        last = tb
        tb = tb.tb_next
    fn = last.tb_frame.f_code.co_filename if last is not None else ''
    return os.path.realpath(fn).startswith(os.path.realpath(REPO) + os.sep)


class _Guard(object):
    """Wraps a shard function: an exception raised *inside pyPRISM* that the driver did not anticipate is a finding about the
    code under test (the oracle could not even be evaluated), not a harness failure: it becomes a violation of the property
    whose check was running.  Exceptions raised by harness code still propagate (exit 2)."""
    def __init__(self, func, pid):
        self.func, self.pid = func, pid

    def __call__(self, item):
        try:
            return self.func(item)
        except HarnessError:
            raise
        except Exception as e:
            if not raised_in_library(e):
                raise
            import traceback
            r = Rec(self.pid)
            tbs = traceback.format_exception(type(e), e, e.__traceback__)
            r.fail({'kind': 'unhandled', 'item': repr(item)[:2000]},
                   'pyPRISM raised %s: %s while the check was exploring %s (no oracle could be evaluated)' % (type(e).__name__, str(e)[:120], repr(item)[:200]),
                   {'kind': 'unhandled-library-exception', 'exc': type(e).__name__}, detail={'traceback': tbs[-6:]})
            return r.to_dict()


def pmap(func, items, rec=None, chunksize=1):
    if rec is not None:
        func = _Guard(func, rec.pid)
    """Apply func(item)->Rec-dict over items in worker processes; merge in
    submission order.  Returns the list of results (dicts) as well."""
    items = list(items)
    n = min(nproc(), max(1, len(items)))
    out = []
    if n <= 1 or len(items) <= 1:
        for it in items:
            out.append(func(it))
    else:
        ctx = mp.get_context('fork')
        with ctx.Pool(n, initializer=_init_worker) as pool:
            for d in pool.imap(func, items, chunksize):
                out.append(d)
    if rec is not None:
        for d in out:
            if d is not None:
                rec.merge(d)
    return out


# --------------------------------------------------------------------------
# pyPRISM import (always from the working tree under test)

def import_pyprism():
    import warnings
    warnings.simplefilter('ignore')
    import pyPRISM
    p = os.path.realpath(os.path.dirname(os.path.dirname(pyPRISM.__file__)))
    if p != os.path.realpath(REPO):
        raise HarnessError('pyPRISM imported from %s, expected %s' % (p, REPO))
    return pyPRISM


class Timer(object):
    def __init__(self):
        self.t0 = time.time()

    def __call__(self):
        return time.time() - self.t0
