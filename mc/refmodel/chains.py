"""Reference chain models for C11: explicit pair sums by separation.  The
non-overlapping freely jointed chain uses the exact Rayleigh-Treloar
end-to-end density of tau unit bonds, integrated by Gauss-Legendre quadrature
over the excluded core (independent of the shipped fixed-grid Simpson rule)."""
from __future__ import annotations

import math

import numpy as np
from numpy.polynomial.legendre import leggauss

from mc.refmodel.basic import chain_sum, sinc


def gaussian(N, sigma, k):
    return chain_sum(N, lambda t, kk: np.exp(-kk * kk * sigma * sigma * t / 6.0), k)


def fjc(N, l, k):
    return chain_sum(N, lambda t, kk: sinc(kk * l) ** t, k)


def ring(N, sigma, k):
    """(1/N) sum_ij w(ring separation) = sum over the separations seen from one site."""
    k = np.asarray(k, dtype=float)
    tot = np.zeros(k.shape)
    for t in range(N):
        tot = tot + np.exp(-sigma * sigma * k * k * t * (N - t) / (6.0 * N))
    return tot


def ring_double_sum(N, sigma, k):
    k = np.asarray(k, dtype=float)
    tot = np.zeros(k.shape)
    for i in range(N):
        for j in range(N):
            t = abs(i - j)
            tot = tot + np.exp(-sigma * sigma * k * k * t * (N - t) / (6.0 * N))
    return tot / N


# --- non-overlapping freely jointed chain ------------------------------------

def p_fjc(r, tau):
    """Exact end-to-end density of tau freely jointed unit bonds (tau >= 2)."""
    r = np.asarray(r, dtype=float)
    out = np.zeros_like(r)
    for s in range(0, tau + 1):
        m = tau - r - 2 * s
        pos = m > 0
        term = np.zeros_like(r)
        term[pos] = (-1) ** s * math.comb(tau, s) * m[pos] ** (tau - 2)
        out += term
    return out / (2 ** (tau + 1) * math.factorial(tau - 2) * np.pi * r)


_GL = leggauss(96)


def nfjc_omega_tau(k, tau):
    """omega_tau(k): density of tau unit bonds with end-to-end distances r < 1
    (overlap of the two end sites, diameter = bond length = 1) removed and
    renormalised."""
    x, w = _GL
    rr = 0.5 * (x + 1.0)
    ww = 0.5 * w
    p = p_fjc(rr, tau)
    J0 = float(np.sum(ww * 4 * np.pi * rr ** 2 * p))
    k = np.asarray(k, dtype=float)
    Jk = np.array([np.sum(ww * 4 * np.pi * rr ** 2 * p * sinc(kk * rr)) for kk in k.ravel()]).reshape(k.shape)
    return (sinc(k) ** tau - Jk) / (1.0 - J0)


def nfjc(N, l, k):
    """Defining sum of the class docstring: omega_id(k; l) + (2/N) sum_{tau=2}^{N-1} (N-tau) [omega_tau(k) - (sin k/k)^tau]
    (the correction is written for unit bonds, exactly as documented)."""
    k = np.asarray(k, dtype=float)
    out = fjc(N, l, k)
    for tau in range(2, N):
        out = out + (2.0 / N) * (N - tau) * (nfjc_omega_tau(k, tau) - sinc(k) ** tau)
    return out


# --- Koyama --------------------------------------------------------------------

def koyama_kernel(k, r2, r4):
    """Docstring definition: sin(Bk)/(Bk) exp(-A^2 k^2), C^2 = (5 - 3 r4/r2^2)/2, B^2 = C r2, A^2 = r2 (1-C)/6."""
    C = math.sqrt(0.5 * (5.0 - 3.0 * r4 / (r2 * r2)))
    B = math.sqrt(C * r2)
    Asq = r2 * (1.0 - C) / 6.0
    k = np.asarray(k, dtype=float)
    return sinc(B * k) * np.exp(-Asq * k * k)


def r2_double_sum(n, l, q):
    """<r^2> of n bonds of length l with <cos(angle between bond i and j)> = q^|i-j|."""
    tot = 0.0
    for i in range(n):
        for j in range(n):
            tot += q ** abs(i - j)
    return l * l * tot


def fjc_moments(n, l):
    return n * l * l, n * l ** 4 * (5.0 * n - 2.0) / 3.0
