"""Reference chain models for C11: explicit pair sums by separation.  The
non-overlapping freely jointed chain uses the exact Rayleigh-Treloar
end-to-end density of tau unit bonds, integrated by Gauss-Legendre quadrature
over the excluded core (independent of the shipped fixed-grid Simpson rule)."""
from __future__ import annotations

import math

import numpy as np
from numpy.polynomial.legendre import leggauss

from mc.refmodel.basic import chain_sum, sinc


def gaussian(N, sigma, k):
    return chain_sum(N, lambda t, kk: np.exp(-kk * kk * sigma * sigma * t / 6.0), k)


def fjc(N, l, k):
    return chain_sum(N, lambda t, kk: sinc(kk * l) ** t, k)


def ring(N, sigma, k):
    """(1/N) sum_ij w(ring separation) = sum over the separations seen from one site."""
    k = np.asarray(k, dtype=float)
    tot = np.zeros(k.shape)
    for t in range(N):
        tot = tot + np.exp(-sigma * sigma * k * k * t * (N - t) / (6.0 * N))
    return tot


def ring_double_sum(N, sigma, k):
    k = np.asarray(k, dtype=float)
    tot = np.zeros(k.shape)
    for i in range(N):
        for j in range(N):
            t = abs(i - j)
            tot = tot + np.exp(-sigma * sigma * k * k * t * (N - t) / (6.0 * N))
    return tot / N


# --- non-overlapping freely jointed chain ------------------------------------

def p_fjc(r, tau):
    """Exact end-to-end density of tau freely jointed unit bonds (tau >= 2)."""
    r = np.asarray(r, dtype=float)
    out = np.zeros_like(r)
    for s in range(0, tau + 1):
        m = tau - r - 2 * s
        pos = m > 0
        term = np.zeros_like(r)
        term[pos] = (-1) ** s * math.comb(tau, s) * m[pos] ** (tau - 2)
        out += term
    return out / (2 ** (tau + 1) * math.factorial(tau - 2) * np.pi * r)


_GL = leggauss(96)


def nfjc_omega_tau(k, tau):
    """omega_tau(k): density of tau unit bonds with end-to-end distances r < 1
    (overlap of the two end sites, diameter = bond length = 1) removed and
    renormalised."""
    x, w = _GL
    rr = 0.5 * (x + 1.0)
    ww = 0.5 * w
    p = p_fjc(rr, tau)
    J0 = float(np.sum(ww * 4 * np.pi * rr ** 2 * p))
    k = np.asarray(k, dtype=float)
    Jk = np.array([np.sum(ww * 4 * np.pi * rr ** 2 * p * sinc(kk * rr)) for kk in k.ravel()]).reshape(k.shape)
    return (sinc(k) ** tau - Jk) / (1.0 - J0)


def nfjc(N, l, k):
    """Defining sum of the class docstring: omega_id(k; l) + (2/N) sum_{tau=2}^{N-1} (N-tau) [omega_tau(k) - (sin k/k)^tau]
    (the correction is written for unit bonds, exactly as documented)."""
    k = np.asarray(k, dtype=float)
    out = fjc(N, l, k)
    for tau in range(2, N):
        out = out + (2.0 / N) * (N - tau) * (nfjc_omega_tau(k, tau) - sinc(k) ** tau)
    return out


# --- Koyama --------------------------------------------------------------------

def koyama_kernel(k, r2, r4):
    """Docstring definition: sin(Bk)/(Bk) exp(-A^2 k^2), C^2 = (5 - 3 r4/r2^2)/2, B^2 = C r2, A^2 = r2 (1-C)/6."""
    C = math.sqrt(0.5 * (5.0 - 3.0 * r4 / (r2 * r2)))
    B = math.sqrt(C * r2)
    Asq = r2 * (1.0 - C) / 6.0
    k = np.asarray(k, dtype=float)
    return sinc(B * k) * np.exp(-Asq * k * k)


def r2_double_sum(n, l, q):
    """<r^2> of n bonds of length l with <cos(angle between bond i and j)> = q^|i-j|."""
    tot = 0.0
    for i in range(n):
        for j in range(n):
            tot += q ** abs(i - j)
    return l * l * tot


def fjc_moments(n, l):
    return n * l * l, n * l ** 4 * (5.0 * n - 2.0) / 3.0


# --- independent <r^2>, <r^4> of the discrete semiflexible chain ----------------------
# Model of the class docstring / Honnell-Curro-Schweizer: bonds of length l, free torsions,
# interior bond-angle cosine x in [-1, cos0] (cos0 = 1 - sigma^2/(2 l^2): no overlap of sites
# two bonds apart) with Boltzmann weight exp(-eps x); eps fixed by <x> = l/lp - 1.
# Moments are obtained by propagating all monomial moments (degree <= 4) of the end-to-end
# vector, expressed in the frame of the last bond, through one random (angle, torsion) step at
# a time.  Nothing of the shipped closed forms (cos_avg, cos_sq_avg, kernel_base) is used.

def _monos(deg=4):
    out = []
    for d in range(deg + 1):
        for a in range(d, -1, -1):
            for b in range(d - a, -1, -1):
                out.append((a, b, d - a - b))
    return out


_MONOS = _monos(4)
_GL48 = leggauss(48)


def _mono_eval(P):
    """P: (m,3) points -> (m, 35) monomial values."""
    return np.stack([P[:, 0] ** a * P[:, 1] ** b * P[:, 2] ** c for (a, b, c) in _MONOS], axis=1)


def angle_nodes(sigma, l, eps):
    cos0 = 1.0 - sigma * sigma / (2.0 * l * l)
    x, w = _GL48
    xs = 0.5 * (cos0 + 1.0) * (x + 1.0) - 1.0
    ws = 0.5 * (cos0 + 1.0) * w * np.exp(-eps * (xs + 1.0))      # shifted exponent: no overflow
    ws = ws / ws.sum()
    return xs, ws


def angle_moments(sigma, l, eps):
    xs, ws = angle_nodes(sigma, l, eps)
    return float(np.sum(ws * xs)), float(np.sum(ws * xs * xs))


def solve_bending_energy(sigma, l, lp):
    """eps >= 0 with <x>(eps) = l/lp - 1 by bisection (monotone decreasing in eps)."""
    target = l / lp - 1.0
    lo, hi = 0.0, 1.0
    if angle_moments(sigma, l, 0.0)[0] <= target + 1e-15:
        return 0.0
    while angle_moments(sigma, l, hi)[0] > target:
        hi *= 2.0
        if hi > 1e6:
            raise ValueError('no bending energy for lp=%r' % lp)
    for _ in range(80):
        mid = 0.5 * (lo + hi)
        if angle_moments(sigma, l, mid)[0] > target:
            lo = mid
        else:
            hi = mid
    return 0.5 * (lo + hi)


_SP = []


def _sample_points():
    if not _SP:
        rng = np.random.RandomState(12345)             # fixed generic sample points for the coefficient solve
        pts = rng.uniform(-1.0, 1.0, size=(70, 3))
        _SP.append((pts, np.linalg.pinv(_mono_eval(pts))))
    return _SP[0]


_MOMCACHE = {}


def semiflexible_moments(sigma, l, lp, nmax):
    """(eps, [(r2_n, r4_n) for n = 1..nmax]) by moment propagation."""
    key = (float(sigma), float(l), float(lp))
    if key in _MOMCACHE and len(_MOMCACHE[key][1]) >= nmax:
        return _MOMCACHE[key][0], _MOMCACHE[key][1][:nmax]
    res = _semiflexible_moments(sigma, l, lp, max(nmax, 12))
    _MOMCACHE[key] = res
    return res[0], res[1][:nmax]


def _semiflexible_moments(sigma, l, lp, nmax):
    eps = solve_bending_energy(sigma, l, lp)
    xs, ws = angle_nodes(sigma, l, eps)
    nphi = 10
    phis = 2 * np.pi * (np.arange(nphi) + 0.37) / nphi
    pts, Vinv = _sample_points()
    M = np.zeros((len(_MONOS), len(_MONOS)))
    for x, w in zip(xs, ws):
        ct = -x                                        # cosine of the angle between consecutive bond vectors
        st = math.sqrt(max(0.0, 1.0 - ct * ct))
        for ph in phis:
            cp, sp = math.cos(ph), math.sin(ph)
            # columns: frame n+1 axes expressed in frame n; third column = direction of bond n+1
            Q = np.array([[ct * cp, -sp, st * cp], [ct * sp, cp, st * sp], [-st, 0.0, ct]])
            newp = pts @ Q + np.array([0.0, 0.0, l])   # R' = Q^T R + l e_z   (row vectors: R @ Q)
            G = _mono_eval(newp)                       # mono_a(R') at the sample points
            coef = Vinv @ G                            # mono_a(R') = sum_b coef[b,a] mono_b(R)
            M += (w / nphi) * coef.T
    m = _mono_eval(np.array([[0.0, 0.0, l]]))[0]       # one bond along e_z
    idx = {mo: i for i, mo in enumerate(_MONOS)}
    out = []
    for n in range(1, nmax + 1):
        r2 = m[idx[(2, 0, 0)]] + m[idx[(0, 2, 0)]] + m[idx[(0, 0, 2)]]
        r4 = (m[idx[(4, 0, 0)]] + m[idx[(0, 4, 0)]] + m[idx[(0, 0, 4)]]
              + 2 * (m[idx[(2, 2, 0)]] + m[idx[(2, 0, 2)]] + m[idx[(0, 2, 2)]]))
        out.append((float(r2), float(r4)))
        m = M @ m
    return eps, out


def koyama_omega(N, sigma, l, lp, k):
    """Defining pair sum with the docstring kernel and independently computed moments."""
    eps, mom = semiflexible_moments(sigma, l, lp, max(1, N - 1))
    k = np.asarray(k, dtype=float)
    tot = np.zeros(k.shape)
    for n in range(1, N):
        r2, r4 = mom[n - 1]
        tot = tot + (N - n) * koyama_kernel(k, r2, r4)
    return 1.0 + 2.0 * tot / N
