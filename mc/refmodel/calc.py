"""Independent re-implementations of the seven calculate.* definitions, written
from the docstring mathematics with explicit loops over k and over type pairs.
Inputs are plain numpy arrays in Fourier space (L, n, n):
Hk total correlation, Ck direct correlation, Ok = site-density-scaled omega."""
from __future__ import annotations

import math

import numpy as np


def lagrange0(x, y):
    """Value at 0 of the quadratic through (x0,y0),(x1,y1),(x2,y2)."""
    x0, x1, x2 = [float(v) for v in x[:3]]
    y0, y1, y2 = [float(v) for v in y[:3]]
    l0 = (0 - x1) * (0 - x2) / ((x0 - x1) * (x0 - x2))
    l1 = (0 - x0) * (0 - x2) / ((x1 - x0) * (x1 - x2))
    l2 = (0 - x0) * (0 - x1) / ((x2 - x0) * (x2 - x1))
    return y0 * l0 + y1 * l1 + y2 * l2


def structure_factor(Hk, Ok, site, pair, normalize):
    L, n, _ = Hk.shape
    S = np.zeros_like(Hk)
    for l in range(L):
        for i in range(n):
            for j in range(n):
                v = Ok[l, i, j] + pair[i, j] * Hk[l, i, j]
                if normalize:
                    v = v / site[i, j]
                S[l, i, j] = v
    return S


def second_virial(Hk, k, extrapolate):
    n = Hk.shape[1]
    out = np.zeros((n, n))
    for i in range(n):
        for j in range(n):
            if extrapolate:
                out[i, j] = lagrange0(k, -0.5 * Hk[:3, i, j])
            else:
                out[i, j] = -0.5 * Hk[0, i, j]
    return out


def spinodal_curve(Ck, Ok, i, j):
    """det(I - Omega C) of the 2x2 block of types (i,j), per k."""
    L = Ck.shape[0]
    out = np.zeros(L)
    for l in range(L):
        Om = np.array([[Ok[l, i, i], Ok[l, i, j]], [Ok[l, j, i], Ok[l, j, j]]])
        C = np.array([[Ck[l, i, i], Ck[l, i, j]], [Ck[l, j, i], Ck[l, j, j]]])
        M = np.eye(2) - Om.dot(C)
        out[l] = M[0, 0] * M[1, 1] - M[0, 1] * M[1, 0]
    return out


def chi_equal_volume(Ck, rho_total, i, j):
    return 0.5 * rho_total * (Ck[:, i, i] + Ck[:, j, j] - 2.0 * Ck[:, i, j])


def csc(Ck, S):
    L = Ck.shape[0]
    out = np.zeros_like(Ck)
    for l in range(L):
        out[l] = Ck[l].dot(S[l]).dot(Ck[l])
    return out


def prism_structure(Ck, Ok):
    """(I - Omega C)^-1 Omega per k."""
    L, n, _ = Ck.shape
    out = np.zeros_like(Ck)
    for l in range(L):
        out[l] = np.linalg.solve(np.eye(n) - Ok[l].dot(Ck[l]), Ok[l])
    return out
