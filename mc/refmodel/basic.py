"""Independent reference implementations written from the published relations
and the docstrings (not from the code under test): closures, potentials,
simple omega pair sums, density matrices.  Deliberately boring."""
from __future__ import annotations

import math

import numpy as np

AMBIG_TOL = 1e-6      # |r - sigma| below this: contact point decided by float noise (K2)


def ambiguous(r, sigma):
    return np.abs(np.asarray(r, dtype=float) - sigma) < AMBIG_TOL


def in_core(r, sigma):
    """Contact rule of property C10: a grid point that coincides with sigma
    (to the tolerance System.check uses) is inside the core."""
    r = np.asarray(r, dtype=float)
    return (r < sigma) | ambiguous(r, sigma)


# --------------------------------------------------------------------------
# potentials: u(r) as documented.  pspec = [name, params]

def ref_potential(pspec, r, sigma):
    name, p = pspec
    r = np.asarray(r, dtype=float)
    out = np.empty(r.shape)
    hv = p.get('high_value', 1e6)
    core = in_core(r, sigma)
    for i in range(r.size):
        ri = float(r.flat[i])
        if name == 'HS':
            v = hv if core.flat[i] else 0.0
        elif name == 'HCLJ':
            if core.flat[i]:
                v = hv
            else:
                x = sigma / ri
                v = p['epsilon'] * (x ** 12 - 2.0 * x ** 6)
        elif name == 'EXP':
            if core.flat[i]:
                v = hv
            else:
                v = -p['epsilon'] * math.exp(-(ri - sigma) / p['alpha'])
        elif name == 'LJ':
            x = sigma / ri
            v = 4.0 * p['epsilon'] * (x ** 12 - x ** 6)
            rc = p.get('rcut')
            if rc is not None:
                if p.get('shift', False):
                    xc = sigma / rc
                    v -= 4.0 * p['epsilon'] * (xc ** 12 - xc ** 6)
                if ri > rc:
                    v = 0.0
        elif name == 'WCA':
            rc = sigma * 2.0 ** (1.0 / 6.0)
            if ri > rc:
                v = 0.0
            else:
                x = sigma / ri
                v = 4.0 * p['epsilon'] * (x ** 12 - x ** 6) + p['epsilon']
        else:
            raise KeyError(name)
        out.flat[i] = v
    return out


HARD_CORE_POTENTIALS = ('HS', 'HCLJ', 'EXP')


# --------------------------------------------------------------------------
# closures: c(gamma, u) and its slope dc/dgamma.  u is already u/kT.

def ref_closure(name, hc, r, sigma, gamma, u, ms_variant='inside'):
    """Returns (c, slope, coremask).  Inside the core (flagged closures only)
    c = -1 - gamma.  `ms_variant` selects where u sits in the published
    Martynov-Sarkisov relation (both placements occur in the literature)."""
    r = np.asarray(r, dtype=float)
    gamma = np.asarray(gamma, dtype=float)
    u = np.asarray(u, dtype=float)
    c = np.empty(gamma.shape)
    s = np.empty(gamma.shape)
    core = in_core(r, sigma) if hc else np.zeros(r.shape, dtype=bool)
    for i in range(gamma.size):
        g = float(gamma.flat[i])
        ui = float(u.flat[i])
        if core.flat[i]:
            c.flat[i] = -1.0 - g
            s.flat[i] = -1.0
            continue
        if name == 'PY':
            f = _exp(-ui) - 1.0
            c.flat[i] = f * (1.0 + g)
            s.flat[i] = f
        elif name == 'HNC':
            e = _exp(g - ui)
            c.flat[i] = e - 1.0 - g
            s.flat[i] = e - 1.0
        elif name == 'MSA':
            c.flat[i] = -ui
            s.flat[i] = 0.0
        elif name == 'MS':
            if ms_variant == 'inside':      # g = exp(sqrt(1+2(gamma-u)) - 1)
                a = 1.0 + 2.0 * (g - ui)
                if a < 0:
                    c.flat[i] = float('nan')
                    s.flat[i] = float('nan')
                else:
                    q = math.sqrt(a)
                    e = _exp(q - 1.0)
                    c.flat[i] = e - 1.0 - g
                    s.flat[i] = (e / q - 1.0) if q > 0 else float('inf')
            else:                           # g = exp(-u + sqrt(1+2 gamma) - 1)
                a = 1.0 + 2.0 * g
                if a < 0:
                    c.flat[i] = float('nan')
                    s.flat[i] = float('nan')
                else:
                    q = math.sqrt(a)
                    e = _exp(-ui + q - 1.0)
                    c.flat[i] = e - 1.0 - g
                    s.flat[i] = (e / q - 1.0) if q > 0 else float('inf')
        else:
            raise KeyError(name)
    return c, s, core


def _exp(x):
    try:
        return math.exp(x)
    except OverflowError:
        return float('inf')


# --------------------------------------------------------------------------
# omega: explicit pair sums (1/N) sum_ij w_|i-j|(k) = 1 + (2/N) sum_tau (N-tau) w_tau

def chain_sum(N, w_of_tau, k):
    """(1/N) * sum over ordered pairs (i,j) of w_{|i-j|}(k); w_0 = 1."""
    k = np.asarray(k, dtype=float)
    tot = np.ones(k.shape)
    for tau in range(1, N):
        tot = tot + (2.0 / N) * (N - tau) * w_of_tau(tau, k)
    return tot


def sinc(x):
    x = np.asarray(x, dtype=float)
    return np.sinc(x / np.pi)


def ref_omega(ospec, k):
    name, p = ospec
    k = np.asarray(k, dtype=float)
    if name == 'SingleSite':
        return np.ones(k.shape)
    if name in ('NoIntra', 'InterMolecular'):
        return np.zeros(k.shape)
    if name == 'Gaussian':
        N, sg = int(p['length']), p['sigma']
        return chain_sum(N, lambda t, kk: np.exp(-kk * kk * sg * sg * t / 6.0), k)
    if name == 'FJC':
        N, l = int(p['length']), p['l']
        return chain_sum(N, lambda t, kk: sinc(kk * l) ** t, k)
    if name == 'GaussianRing':
        N, sg = int(p['length']), p['sigma']
        tot = np.zeros(k.shape)
        for t in range(N):
            tot = tot + np.exp(-sg * sg * k * k * t * (N - t) / (6.0 * N))
        return tot
    if name == 'GaussBlockDiag':
        # sites 1..Nb of a Gaussian chain of total length Ntot: block self term
        Nb, sg = int(p['block']), p['sigma']
        return chain_sum(Nb, lambda t, kk: np.exp(-kk * kk * sg * sg * t / 6.0), k)
    if name == 'GaussBlockCross':
        # cross term between the two blocks (sizes Na, Nb) of a Gaussian diblock,
        # normalised by (Na+Nb) as pyPRISM's convention for off-diagonal omega
        Na, Nb, sg = int(p['Na']), int(p['Nb']), p['sigma']
        tot = np.zeros(k.shape)
        for i in range(1, Na + 1):
            for j in range(Na + 1, Na + Nb + 1):
                tot = tot + np.exp(-k * k * sg * sg * abs(i - j) / 6.0)
        return tot / (Na + Nb)
    raise KeyError(name)


# --------------------------------------------------------------------------
# densities

def site_pair_matrices(types, rho):
    n = len(types)
    site = np.zeros((n, n))
    pair = np.zeros((n, n))
    for i, a in enumerate(types):
        for j, b in enumerate(types):
            pair[i, j] = rho[a] * rho[b]
            site[i, j] = rho[a] if i == j else rho[a] + rho[b]
    return site, pair


# --------------------------------------------------------------------------
# array versions (same relations, used where the reference is evaluated after
# every cost evaluation of a solver trajectory)

def tail_value(pspec, ri, sigma):
    """Documented form outside the core evaluated at ri, whatever side of sigma ri is on (hard-core family only)."""
    name, p = pspec
    if name == 'HS':
        return 0.0
    if name == 'HCLJ':
        x = sigma / ri
        return p['epsilon'] * (x ** 12 - 2.0 * x ** 6)
    if name == 'EXP':
        return -p['epsilon'] * math.exp(-(ri - sigma) / p['alpha'])
    raise KeyError(name)


def ref_potential_vec(pspec, r, sigma):
    name, p = pspec
    r = np.asarray(r, dtype=float)
    hv = p.get('high_value', 1e6)
    core = in_core(r, sigma)
    with np.errstate(all='ignore'):
        x = sigma / r
        if name == 'HS':
            tail = np.zeros(r.shape)
        elif name == 'HCLJ':
            tail = p['epsilon'] * (x ** 12 - 2.0 * x ** 6)
        elif name == 'EXP':
            tail = -p['epsilon'] * np.exp(-(r - sigma) / p['alpha'])
        elif name == 'LJ':
            tail = 4.0 * p['epsilon'] * (x ** 12 - x ** 6)
            rc = p.get('rcut')
            if rc is not None:
                if p.get('shift', False):
                    xc = sigma / rc
                    tail = tail - 4.0 * p['epsilon'] * (xc ** 12 - xc ** 6)
                tail = np.where(r > rc, 0.0, tail)
            return tail
        elif name == 'WCA':
            rc = sigma * 2.0 ** (1.0 / 6.0)
            tail = np.where(r > rc, 0.0, 4.0 * p['epsilon'] * (x ** 12 - x ** 6) + p['epsilon'])
            return tail
        else:
            raise KeyError(name)
    return np.where(core, hv, tail)


def ref_closure_vec(name, hc, r, sigma, gamma, u, ms_variant='inside'):
    r = np.asarray(r, dtype=float)
    g = np.asarray(gamma, dtype=float)
    u = np.asarray(u, dtype=float)
    core = in_core(r, sigma) if hc else np.zeros(r.shape, dtype=bool)
    with np.errstate(all='ignore'):
        if name == 'PY':
            f = np.exp(-u) - 1.0
            c, s = f * (1.0 + g), f
        elif name == 'HNC':
            e = np.exp(g - u)
            c, s = e - 1.0 - g, e - 1.0
        elif name == 'MSA':
            c, s = -u, np.zeros(g.shape)
        elif name == 'MS':
            if ms_variant == 'inside':
                q = np.sqrt(1.0 + 2.0 * (g - u))
                e = np.exp(q - 1.0)
            else:
                q = np.sqrt(1.0 + 2.0 * g)
                e = np.exp(-u + q - 1.0)
            c, s = e - 1.0 - g, e / q - 1.0
        else:
            raise KeyError(name)
    c = np.where(core, -1.0 - g, c)
    s = np.where(core, -1.0, s)
    return c, s, core
