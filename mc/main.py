"""./check driver: runs one property module, classifies what it found against
known_findings.json, writes replays and evidence, sets the exit code.

exit 0: property held on everything explored (known findings printed)
exit 1: VIOLATION property=<id> replay=<path>
exit 2: harness error (nothing decided)
"""
from __future__ import annotations

import argparse
import hashlib
import importlib
import json
import os
import sys
import traceback

from mc import core
from mc.core import Rec, HarnessError, jdump

KF_PATH = os.path.join(core.VERIF_DIR, 'known_findings.json')
# evidence/ and replays/ go to /verif unless redirected (used only by tools/seeded.py, which runs
# the checks against scratch copies carrying a seeded change and must not touch the real evidence)
OUT_DIR = os.environ.get('VERIF_OUT_DIR') or core.VERIF_DIR
MAX_REPLAYS = 8


def load_findings(pid):
    if not os.path.exists(KF_PATH):
        return []
    with open(KF_PATH) as fh:
        allf = json.load(fh)['findings']
    return [f for f in allf if f['property'] == pid]


def matches(entry, viol):
    if entry.get('status') != 'known':
        return False            # a "fixed" entry suppresses nothing
    tags = viol.get('tags', {})
    for k, want in entry.get('match', {}).items():
        have = tags.get(k)
        if isinstance(want, list):
            if have not in want:
                return False
        elif have != want:
            return False
    return bool(entry.get('match'))


def write_replay(pid, viol):
    d = os.path.join(OUT_DIR, 'replays', pid)
    os.makedirs(d, exist_ok=True)
    body = {'property': pid, 'case': viol['case'], 'msg': viol['msg'],
            'tags': viol['tags'], 'detail': viol['detail'], 'repro': viol.get('repro'),
            'how_to_replay': './check %s --replay <this file>' % pid}
    h = hashlib.blake2b(jdump([viol['case'], viol['tags']]).encode(), digest_size=6).hexdigest()
    path = os.path.join(d, h + '.json')
    with open(path, 'w') as fh:
        json.dump(body, fh, indent=1, sort_keys=True)
    return path


def main(argv=None):
    ap = argparse.ArgumentParser(prog='check')
    ap.add_argument('pid')
    ap.add_argument('--tier', default=os.environ.get('VERIF_TIER', 'quick'), choices=['quick', 'thorough'])
    ap.add_argument('--replay', default=None)
    ap.add_argument('--no-evidence', action='store_true')
    a = ap.parse_args(argv)
    pid = a.pid.upper()
    try:
        seed = int(os.environ.get('VERIF_SEED', '0'))
    except ValueError:
        seed = 0
    timer = core.Timer()
    try:
        core.import_pyprism()
        mod = importlib.import_module('mc.props.' + pid.lower())
    except HarnessError as e:
        print('HARNESS-ERROR %s: %s' % (pid, e))
        return 2
    except ImportError:
        traceback.print_exc()
        print('HARNESS-ERROR %s: cannot import property module or pyPRISM' % pid)
        return 2
    rec = Rec(pid)
    findings = load_findings(pid)

    try:
        if a.replay:
            with open(a.replay) as fh:
                body = json.load(fh)
            if isinstance(body.get('case'), dict) and body['case'].get('kind') == 'unhandled':
                print('%s: this record is an exception raised inside pyPRISM during exploration (%s); it has no single-case replay - rerun ./check %s'
                      % (pid, body.get('msg', '')[:200], pid))
                return 1
            obs = []
            for _ in range(2):          # replay twice: observations must agree
                r = Rec(pid)
                mod.replay(r, body['case'])
                obs.append(jdump([[v['msg'], v['tags']] for v in r.viols]))
                rec = r
            if obs[0] != obs[1]:
                print('HARNESS-ERROR %s: replay is not deterministic' % pid)
                return 2
        else:
            mod.run(rec, a.tier, seed)
            # determinism: re-execute stored sample cases twice in this process
            det = 0
            for case in ([] if rec.nviol else rec.samples[:2]):      # (with violations on record the verdict does not rest on the samples)
                o = []
                for _ in range(2):
                    r = Rec(pid)
                    mod.replay(r, case)
                    o.append(jdump([sorted(r.outcomes), r.c, [[v['msg'], v['tags']] for v in r.viols]]))
                if o[0] != o[1]:
                    if getattr(mod, 'NONDETERMINISM_IS_A_FINDING', False):
                        rec.fail(case, 'the same input evaluated twice gives different observations: the code under test is not deterministic', {'kind': 'nondeterministic'})
                        break
                    print('HARNESS-ERROR %s: sample case is not deterministic: %s' % (pid, jdump(case)))
                    return 2
                det += 1
            rec.note('replay_determinism_checked', det)
    except HarnessError as e:
        print('HARNESS-ERROR %s: %s' % (pid, e))
        return 2
    except Exception as e:
        if core.raised_in_library(e) and not a.replay:
            # the library under test raised where the driver did not anticipate it: a finding about the code, not about the harness
            rec.fail({'kind': 'unhandled', 'item': 'main process'},
                     'pyPRISM raised %s: %s during the exploration (no oracle could be evaluated)' % (type(e).__name__, str(e)[:120]),
                     {'kind': 'unhandled-library-exception', 'exc': type(e).__name__},
                     detail={'traceback': traceback.format_exception(type(e), e, e.__traceback__)[-6:]})
        else:
            traceback.print_exc()
            print('HARNESS-ERROR %s: unexpected exception in the harness' % pid)
            return 2

    # classify (by tag signature: every violation carries tags, records are kept per signature)
    known_hits = {}
    unknown_sigs = {}
    for sig, n in sorted(rec.sigs.items()):
        v = {'tags': json.loads(sig)}
        hit = None
        for f in findings:
            if matches(f, v):
                hit = f
                break
        if hit is not None:
            known_hits.setdefault(hit['key'], [hit, 0])[1] += n
        else:
            unknown_sigs[sig] = n
    unknown = [v for v in rec.viols if jdump(v['tags']) in unknown_sigs]
    n_unknown = sum(unknown_sigs.values())
    for key in sorted(known_hits):
        f, n = known_hits[key]
        print('KNOWN-FINDING: property=%s %s [%s; %d cases this run]' % (pid, f['what'], key, n))
    rc = 0
    paths = []
    seen_sig = set()
    for v in unknown:
        sig = jdump([v['tags'], v['msg'][:60]])
        if sig in seen_sig or len(paths) >= MAX_REPLAYS:
            continue
        seen_sig.add(sig)
        p = write_replay(pid, v)
        paths.append(p)
        print('VIOLATION property=%s replay=%s' % (pid, p))
        print('  ' + v['msg'])
    if n_unknown:
        rc = 1
        if not paths:
            print('HARNESS-ERROR %s: %d unlisted violations but no record kept' % (pid, n_unknown))
            rc = 2

    wall = timer()
    if not a.replay and not a.no_evidence:
        meta = getattr(mod, 'META', {})
        cov = {
            'states': rec.c.get('states', 0),
            'transitions': rec.c.get('transitions', 0),
            'traces_validated_against_impl': rec.c.get('traces', 0),
            'evaluations': rec.c.get('evaluations', rec.c.get('transitions', 0)),
            'distinct_nontrivial': len(rec.outcomes),
            'rule': meta.get('rule', ''),
            'samples': rec.samples,
            'exhaustive': bool(rec.notes.get('exhaustive', True)),
            'counters': {k: v for k, v in sorted(rec.c.items())},
            'known_findings_hit': {k: known_hits[k][1] for k in sorted(known_hits)},
            'violations_unlisted': n_unknown,
        }
        for k, v in rec.notes.items():
            if k not in cov:
                cov[k] = v
        ev = {'property_id': pid, 'tier': a.tier, 'seed': seed, 'level': 'model_checking',
              'coverage': cov, 'assumptions': meta.get('assumptions', []),
              'wall_s': round(wall, 3), 'violations': n_unknown}
        os.makedirs(os.path.join(OUT_DIR, 'evidence'), exist_ok=True)
        with open(os.path.join(OUT_DIR, 'evidence', pid + '.json'), 'w') as fh:
            json.dump(ev, fh, indent=1, sort_keys=True)
    print('%s tier=%s seed=%d states=%d transitions=%d traces=%d distinct_outcomes=%d '
          'known=%d violations=%d wall=%.1fs' % (
              pid, a.tier, seed, rec.c.get('states', 0), rec.c.get('transitions', 0),
              rec.c.get('traces', 0), len(rec.outcomes), sum(n for _, n in known_hits.values()),
              n_unknown, wall))
    return rc


if __name__ == '__main__':
    sys.exit(main())
