"""C08 - to_fourier / to_real approximate the continuous 3-D radial Fourier
transform.  E1: analytic families x widths x amplitudes x refinement ladder
(dr = 0.2 * 2^-n at r_max = 25.6) on the real Domain; forward and backward are
compared separately with closed forms, inside error bounds whose constants
come from the analytic function (first-order term of the half-cell offset of
the DST-II/III grids), and the error must shrink along the ladder."""
from __future__ import annotations

import itertools
import math
import warnings

import numpy as np

from mc import core, build
from mc.core import Rec, HarnessError

META = {
    'rule': ('states: (family, width, amplitude, ladder level) configurations; transitions: one real to_fourier or to_real call compared '
             'pointwise with the closed form at every fixed k (first 128 wavenumbers, common to all levels) / fixed r >= 0.2 of the coarsest grid; '
             'traces: complete ladders (all levels of one family member) with the shrink test; non-trivial: the closed-form values at the compared '
             'points are not all below 1e-12 of the peak; distinct = digest of (family, parameters, level, direction, values)'),
    'assumptions': ['closed forms: Gaussian A exp(-r^2/2s^2) <-> A (2 pi s^2)^(3/2) exp(-k^2 s^2/2); Yukawa A exp(-a r)/r <-> 4 pi A/(k^2+a^2); '
                    'sphere A*[r<R] <-> 4 pi A (sin kR - kR cos kR)/k^3; exponential A exp(-a r) <-> 8 pi A a/(k^2+a^2)^2',
                    'the sphere indicator is discontinuous, so only its forward transform is compared (the backward one has an O(1) Gibbs error at r = R for every dr)'],
}

RMAX = 25.6
NK = 128


DR0 = 0.2
BASES = [128, 112, 120, 126, 127, 121]      # coarsest lengths: 2^7, 7*2^4, 2^3*3*5, 2*3^2*7, prime, 11^2 (r_max = 0.2*base)


def levels(n, base=128):
    return [(i, base * 2 ** i, DR0 / 2 ** i) for i in range(n)]


class Fam(object):
    def __init__(self, name, w, A, rmax=RMAX):
        self.name, self.w, self.A, self.rmax = name, w, A, rmax

    def f(self, r):
        if self.name == 'gauss':
            return self.A * np.exp(-r * r / (2 * self.w ** 2))
        if self.name == 'yukawa':
            return self.A * np.exp(-self.w * r) / r
        if self.name == 'expo':
            return self.A * np.exp(-self.w * r)
        return self.A * (r < self.w) * 1.0

    def F(self, k):
        if self.name == 'gauss':
            return self.A * (2 * np.pi * self.w ** 2) ** 1.5 * np.exp(-k * k * self.w ** 2 / 2)
        if self.name == 'yukawa':
            return 4 * np.pi * self.A / (k * k + self.w ** 2)
        if self.name == 'expo':
            return 8 * np.pi * self.A * self.w / (k * k + self.w ** 2) ** 2
        kR = k * self.w
        return 4 * np.pi * self.A * (np.sin(kR) - kR * np.cos(kR)) / k ** 3

    def volume(self):
        if self.name == 'gauss':
            return self.A * (2 * np.pi * self.w ** 2) ** 1.5
        if self.name == 'yukawa':
            return 4 * np.pi * self.A / self.w ** 2
        if self.name == 'expo':
            return 8 * np.pi * self.A / self.w ** 3
        return 4 * np.pi * self.A * self.w ** 3 / 3

    def fwd_const(self):
        """4 pi int r |f| dr  (margin 2 over the first-order half-cell term (dr/2) 4 pi int r|f| dr)."""
        a = abs(self.A)
        if self.name == 'gauss':
            return 4 * np.pi * a * self.w ** 2
        if self.name == 'yukawa':
            return 4 * np.pi * a / self.w
        if self.name == 'expo':
            return 4 * np.pi * a / self.w ** 2
        # discontinuous: besides the half-cell offset (R^2/2) the edge falls somewhere inside one cell,
        # which mis-counts at most one cell of the integrand: (4 pi / k) dr R |A| |sin kR| <= 4 pi R^2 |A| dr
        return 4 * np.pi * a * (self.w ** 2 / 2 + self.w ** 2)

    def fwd_floor(self, k):
        """Truncation of the r integral at r_max (independent of dr)."""
        a = abs(self.A)
        if self.name == 'yukawa':
            return 4 * np.pi * a * np.exp(-self.w * self.rmax) / (self.w * k) * 2
        if self.name == 'expo':
            return 4 * np.pi * a * np.exp(-self.w * self.rmax) * (self.rmax + 1 / self.w) / (self.w * k) * 2
        if self.name == 'gauss':
            return 4 * np.pi * a * np.exp(-self.rmax ** 2 / (2 * self.w ** 2)) * self.rmax * self.w ** 2 / k * 2
        return 0.0

    def bwd_bound(self, r, dr):
        """(max|(r f)'| / r + T_f(r)) * dr, margin 2 on the first-order term, T_f the truncation of the k integral at pi/dr."""
        a = abs(self.A)
        if self.name == 'gauss':
            return 2 * (a / r) * dr / 2 * 2          # max |(rf)'| = |A| (at r = 0)
        if self.name == 'yukawa':
            kmax = np.pi / dr
            kF = 4 * np.pi * a * kmax / (kmax ** 2 + self.w ** 2)
            trunc = (1 / (2 * np.pi ** 2 * r)) * (2 * kF / r)
            return (a * self.w / r) * dr * 2 + trunc
        if self.name == 'expo':
            kmax = np.pi / dr
            kF = 8 * np.pi * a * self.w * kmax / (kmax ** 2 + self.w ** 2) ** 2
            trunc = (1 / (2 * np.pi ** 2 * r)) * (2 * kF / r)
            return (a / r) * dr * 2 + trunc                  # max |(rf)'| = |A| (at r = 0)
        raise KeyError

    def has_backward(self):
        return self.name != 'sphere'

    def strict_shrink(self, direction):
        return self.name in ('gauss', 'expo') or (self.name == 'yukawa' and direction == 'fwd')


def tags(fam, kind, direction):
    return {'family': fam.name, 'kind': kind, 'direction': direction}


def case_ladder(rec, c):
    base = c.get('base', 128)
    fam = Fam(c['family'], c['width'], c['amplitude'], DR0 * base)
    errs = {'fwd': [], 'bwd': []}
    nl = c['levels']
    for n, L, dr in levels(nl, base):
        # other Domains of the same length and a different spacing exist in the process: one constructed (and used)
        # before this one, one constructed after it and alive while this one is used
        before = build.make_domain({'length': L, 'dr': dr * 1.7})
        before.to_fourier(np.ones(L))
        d = build.make_domain({'length': L, 'dr': dr})
        after = build.make_domain({'length': L, 'dr': dr * 0.6})
        after.to_real(np.ones(L))
        if not build.domain_ok(d):
            rec.count('skipped_preconditions')
            return
        rec.state()
        step = 2 ** n
        sel = np.arange(step - 1, L, step)             # points of the coarsest r grid
        r = d.r[sel]
        m = r >= 0.2 - 1e-9
        k = d.k[:min(NK, base)]
        # forward
        f = fam.f(d.r)
        Fn = np.asarray(d.to_fourier(f))[:len(k)]
        rec.trans()
        Fx = fam.F(k)
        e = np.abs(Fn - Fx)
        bound = fam.fwd_const() * dr + fam.fwd_floor(k) + 1e-12 * abs(fam.volume())
        errs['fwd'].append(float(e.max()))
        bad = np.where(e > bound)[0]
        if len(bad):
            j = int(bad[np.argmax((e / bound)[bad])])
            rec.fail(dict(c, level=n), '%s(w=%g, A=%g), dr=%g: to_fourier at k=%.4g is %r, 4 pi Int f r sin(kr)/k dr = %r; error %.3g exceeds %.3g = (4 pi Int r|f| dr) * dr'
                     % (fam.name, fam.w, fam.A, dr, float(k[j]), float(Fn[j]), float(Fx[j]), float(e[j]), float(np.atleast_1d(bound)[j] if np.ndim(bound) else bound)),
                     tags(fam, 'bound', 'fwd'), repro=REPRO % (L, dr))
        # k -> 0 value tends to the volume integral
        vol = fam.volume()
        if abs(Fn[0] - vol) > fam.fwd_const() * dr + abs(Fx[0] - vol) + float(np.atleast_1d(fam.fwd_floor(k))[0]):
            rec.fail(dict(c, level=n), '%s(w=%g): lowest-k value %r is not within the forward bound of the volume integral %r' % (fam.name, fam.w, float(Fn[0]), vol),
                     tags(fam, 'volume', 'fwd'))
        if np.max(np.abs(Fx)) > 1e-12 * abs(vol):
            rec.outcome(core.digest([fam.name, fam.w, fam.A, n, 'fwd', Fn[:16]], 6))
        # backward
        if fam.has_backward():
            fb = np.asarray(d.to_real(fam.F(d.k)))
            rec.trans()
            eb = np.abs(fb - f)[sel][m]
            bb = fam.bwd_bound(r[m], dr) + 1e-12 * abs(fam.A)
            errs['bwd'].append(float(eb.max()))
            bad = np.where(eb > bb)[0]
            if len(bad):
                j = int(bad[np.argmax((eb / bb)[bad])])
                rec.fail(dict(c, level=n), '%s(w=%g, A=%g), dr=%g: to_real at r=%.4g is %r, f(r) = %r; error %.3g exceeds the analytic bound %.3g'
                         % (fam.name, fam.w, fam.A, dr, float(r[m][j]), float(fb[sel][m][j]), float(f[sel][m][j]), float(eb[j]), float(bb[j])),
                         tags(fam, 'bound', 'bwd'), repro=REPRO % (L, dr))
            rec.outcome(core.digest([fam.name, fam.w, fam.A, n, 'bwd', fb[sel][m][:16]], 6))
    # shrink along the ladder
    for direction, es in errs.items():
        if len(es) < 2:
            continue
        if fam.strict_shrink(direction):
            for i in range(1, len(es)):
                if es[i] > 1e-13 * abs(fam.volume()) and not es[i - 1] / es[i] >= 1.5:
                    rec.fail(c, '%s(w=%g) %s: error does not shrink when dr is halved (level %d: %.3g -> %.3g)' % (fam.name, fam.w, direction, i, es[i - 1], es[i]),
                             tags(fam, 'shrink', direction))
                    break
        else:
            if not es[-1] <= 0.25 * es[0]:
                rec.fail(c, '%s(w=%g) %s: error at the finest level %.3g is not below a quarter of the coarsest %.3g' % (fam.name, fam.w, direction, es[-1], es[0]),
                         tags(fam, 'shrink', direction))
    rec.note('errors_%s_%g_%g_%d' % (fam.name, fam.w, fam.A, base), {k: ['%.3g' % x for x in v] for k, v in errs.items()})
    rec.trace()


REPRO = ("import numpy as np, pyPRISM\nd = pyPRISM.Domain(length=%d, dr=%r)\n"
         "f = np.exp(-d.r**2/2); print(d.to_fourier(f)[:3], (2*np.pi)**1.5*np.exp(-d.k[:3]**2/2))")


def replay(rec, case):
    with warnings.catch_warnings(), np.errstate(all='ignore'):
        warnings.simplefilter('ignore')
        case_ladder(rec, case)


def _worker(c):
    rec = Rec('C08')
    replay(rec, c)
    return rec.to_dict()


def run(rec, tier, seed):
    if tier == 'quick':
        widths = {'gauss': [0.5, 1.0, 2.0], 'yukawa': [0.5, 1.0, 2.0], 'expo': [0.7, 2.0], 'sphere': [1.03, 2.57]}
        amps, nl = [1.0, 1e-9, -3.7], 5          # 1e-9: a weak pair function (the transform is linear: small is not zero)
    else:
        widths = {'gauss': [0.5, 0.75, 1.0, 2.0, 3.0], 'yukawa': [0.5, 1.0, 2.0, 3.0], 'expo': [0.7, 1.0, 2.0], 'sphere': [1.03, 2.57, 4.11]}
        amps, nl = [1.0, -3.7, 1e-9, 1e-13, 1e6, 0.02], 8
    cases = []
    for fam in widths:
        for w, A in itertools.product(widths[fam], amps):
            cases.append({'family': fam, 'width': w, 'amplitude': A, 'levels': nl, 'base': 128})
    # the same ladders on lengths that are not powers of two (the transform must not depend on the
    # factorisation of the length): every base x every family, one width each in quick, all in thorough
    for base in BASES[1:]:
        for fam in widths:
            ws = widths[fam] if tier == 'thorough' else widths[fam][:1]
            for w in ws:
                cases.append({'family': fam, 'width': w, 'amplitude': amps[-1], 'levels': min(nl, 5), 'base': base})
    core.pmap(_worker, cases, rec)
    rec.note('alphabets', {'widths': widths, 'amplitudes': amps, 'ladder': ['dr=%g (length %d)' % (dr, L) for _, L, dr in levels(nl)], 'r_max': RMAX,
                           'bases': BASES, 'ladder_other_bases': 'length = base*2^n, dr = 0.2/2^n, n < %d' % min(nl, 5)})
    rec.sample(cases[0])
    rec.sample(cases[-1])
