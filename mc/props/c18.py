"""C18 - Debyer omega equals the direct Debye sum for any thread count.

The Cython extension is built by this check from the .pyx of the working tree under
test (into /verif/build/debyer/<hash of the source>/, never into the repository) and
the compiled code is executed.  E1: complete product of

    site count x every partition of the sites into molecules x frames x boxes
    x self / every cross split x every chunk count 1..N+2 and 16
    x OpenMP team sizes {1, 2, 3, 4, 16} x repetitions

with two oracles: the direct Debye sum (float64, minimum image) and bitwise
determinism of the result for a fixed chunk count across team sizes and
repetitions (the per-chunk partial sums are reduced in a fixed order, so a result
that depends on the team size or changes between repetitions means threads share
an accumulator).  All orders of the sites (N <= 4) give the same curve to float32
rounding.

What is NOT enumerated: the interleaving of the OpenMP threads inside one run (there
is no controllable OpenMP scheduler in this image); the determinism oracle observes
it only through repeated free-running executions."""
from __future__ import annotations

import ctypes
import hashlib
import importlib.util
import itertools
import os
import shutil
import subprocess
import sys
import warnings

import numpy as np

from mc import core
from mc.core import Rec, HarnessError

META = {
    'rule': ('states: (trajectory, molecule partition, box, self/cross split) inputs constructed; transitions: one real Debyer.calculate call '
             '(compiled code, given chunk count and OpenMP team size) compared with the direct Debye sum and with the other team sizes / repetitions; '
             'traces: inputs for which every chunk count x team size x repetition was executed; non-trivial: at least one intramolecular pair '
             'contributes; distinct = digest of (input, chunk count, curve)'),
    'assumptions': ['the extension is built from the working tree\'s Debyer.pyx with Cython + gcc -fopenmp into /verif/build (the repository ships no usable binary)',
                    'libgomp\'s omp_set_num_threads sets the team size of the following parallel region',
                    'float32 arithmetic inside the extension: absolute comparison tolerance 1e-5 + 3e-7 * (number of contributing ordered pairs), about 15x the measured deviation',
                    'the interleaving of threads within one run is not controlled (no OpenMP scheduler to own); repetitions sample it'],
}

BUILD_ROOT = os.path.join(core.VERIF_DIR, 'build', 'debyer')
LENGTH, DK = 8, 0.45
TEAMS = [1, 2, 3, 4, 16]
REPS = 3
WORKERS = 4                     # worker processes (each runs OpenMP teams of up to 16 threads)


def pyx_path():
    return os.path.join(core.REPO, 'pyPRISM', 'trajectory', 'Debyer.pyx')


def ensure_built():
    """Build (once per source hash) and import the extension of the tree under test."""
    src = open(pyx_path(), 'rb').read()
    h = hashlib.blake2b(src, digest_size=8).hexdigest()
    d = os.path.join(BUILD_ROOT, h)
    so = [f for f in (os.listdir(d) if os.path.isdir(d) else []) if f.startswith('Debyer') and f.endswith('.so')]
    if not so:
        tmp = d + '.tmp%d' % os.getpid()
        shutil.rmtree(tmp, ignore_errors=True)
        os.makedirs(os.path.join(tmp, 'src'))
        with open(os.path.join(tmp, 'src', 'Debyer.pyx'), 'wb') as fh:
            fh.write(src)
        with open(os.path.join(tmp, 'setup.py'), 'w') as fh:
            fh.write("from setuptools import setup, Extension\nfrom Cython.Build import cythonize\nimport numpy\n"
                     "ext = Extension('Debyer', ['src/Debyer.pyx'], include_dirs=[numpy.get_include()], extra_compile_args=['-fopenmp', '-O2'],\n"
                     "                extra_link_args=['-fopenmp'], define_macros=[('NPY_NO_DEPRECATED_API', 'NPY_1_7_API_VERSION')])\n"
                     "setup(ext_modules=cythonize([ext], language_level=3, quiet=True))\n")
        p = subprocess.run([sys.executable, 'setup.py', '-q', 'build_ext', '--inplace'], cwd=tmp, stdout=subprocess.PIPE, stderr=subprocess.STDOUT, text=True)
        built = [f for f in os.listdir(tmp) if f.startswith('Debyer') and f.endswith('.so')]
        if p.returncode != 0 or not built:
            tail = '\n'.join(p.stdout.strip().splitlines()[-15:])
            shutil.rmtree(tmp, ignore_errors=True)
            return None, 'the extension does not build from %s:\n%s' % (pyx_path(), tail)
        os.makedirs(BUILD_ROOT, exist_ok=True)
        shutil.rmtree(d, ignore_errors=True)
        os.rename(tmp, d)
        shutil.rmtree(os.path.join(d, 'build'), ignore_errors=True)
        so = built
    spec = importlib.util.spec_from_file_location('Debyer', os.path.join(d, so[0]))
    mod = importlib.util.module_from_spec(spec)
    spec.loader.exec_module(mod)
    return mod, None


_GOMP = []


def set_team(n):
    if not _GOMP:
        _GOMP.append(ctypes.CDLL('libgomp.so.1'))
    _GOMP[0].omp_set_num_threads(int(n))


def partitions(n):
    """All set partitions of range(n) as restricted growth strings."""
    def rec(prefix, mx):
        if len(prefix) == n:
            yield list(prefix)
            return
        for v in range(mx + 2):
            yield from rec(prefix + [v], max(mx, v))
    return list(rec([0], 0)) if n else [[]]


def positions(n, frames, box, salt):
    """Deterministic, pairwise distinct positions inside the box (golden-ratio lattice)."""
    g = np.array([0.6180339887498949, 0.7548776662466927, 0.5698402909980532])
    out = np.empty((frames, n, 3))
    for f in range(frames):
        for i in range(n):
            out[f, i] = ((0.137 + (i + 1 + 7 * f + 3 * salt) * g) % 1.0) * box[f]
    return out


def direct(p1, p2, m1, m2, box, selfo, k):
    F = p1.shape[0]
    out = np.zeros(len(k))
    npairs = 0
    for f in range(F):
        tot = np.zeros(len(k))
        for i in range(p1.shape[1]):
            for j in range(p2.shape[1]):
                if selfo and i == j:
                    continue
                if m1[i] != m2[j]:
                    continue
                d = p1[f, i] - p2[f, j]
                d = d - box[f] * np.round(d / box[f])
                r = float(np.sqrt(np.sum(d * d)))
                tot += np.sin(k * r) / (k * r)
                npairs += 1
        n = p1.shape[1] if selfo else p1.shape[1] + p2.shape[1]
        out += (1.0 if selfo else 0.0) + tot / n
    return out / F, npairs


BOXES = {'large': [1000.0, 1000.0, 1000.0], 'small': [3.1, 4.3, 2.7],       # 'small': most pairs need the minimum image
         'npt': [3.1, 4.3, 2.7]}                                            # 'npt': the box changes from frame to frame


def tags(kind, **kw):
    t = {'kind': kind}
    t.update(kw)
    return t


def case_input(rec, c, mod=None, reuse=None):
    import pyPRISM
    if mod is None:
        mod, err = ensure_built()
        if mod is None:
            rec.fail(c, err, tags('build'))
            return
    n, part, frames, boxname, split = c['n'], c['molecules'], c['frames'], c['box'], c['split']
    box = np.repeat([BOXES[boxname]], frames, axis=0)
    if boxname == 'npt':
        box = box * (1.0 + 0.23 * np.arange(frames)).reshape(-1, 1) * np.array([1.0, 0.9, 1.1]) ** np.arange(frames).reshape(-1, 1)
    pos = positions(n, frames, box, c.get('salt', 0))
    mol = np.array(part, dtype=np.int64)
    order = c.get('order')
    if order is not None:
        pos = pos[:, order, :]
        mol = mol[order]
    if c.get('labels'):             # molecule labels need not be 0..M-1: negative, non-contiguous values
        lab = np.array([7, -2, 1000003, 0, 11, -9], dtype=np.int64)
        mol = lab[mol % len(lab)] + (mol // len(lab)) * 17
    if c.get('unwrap'):             # coordinates kept "whole": site i shifted by (i mod 7 - 3) box lengths, per axis differently
        sh = (np.arange(n) % 7 - 3).reshape(1, n, 1) * np.array([1, -1, 2]).reshape(1, 1, 3)
        pos = pos + sh * box.reshape(frames, 1, 3)
    layout = c.get('layout')
    if layout == 'fortran':
        pos = np.asfortranarray(pos)
    elif layout == 'float32':
        pos = np.asarray(pos, dtype=np.float32).astype(np.float64).astype(np.float32)
    elif layout == 'strided':
        pos = np.repeat(pos, 2, axis=1)[:, ::2, :]
    dom = pyPRISM.Domain(length=c.get('length', LENGTH), dk=c.get('dk', DK))
    k = np.asarray(dom.k)
    if split is None:
        p1 = p2 = pos
        m1 = m2 = mol
        selfo = True
    else:
        p1, p2, m1, m2, selfo = pos[:, :split], pos[:, split:], mol[:split], mol[split:], False
    want, npairs = direct(p1, p2, m1, m2, box, selfo, k)
    rec.state()
    dtol = 4 * float(np.finfo(np.float32).eps) * (1.0 + npairs / max(1.0, float(p1.shape[1] if selfo else p1.shape[1] + p2.shape[1]))) * 2.0
    tol = 1e-5 + 3e-7 * npairs            # float32 inside the extension: measured <= 2e-6 for 156 ordered pairs on 8192 bins
    chunks = c.get('chunks') or (list(range(1, n + 3)) + [16])
    snap = [a.copy() for a in (p1, p2, m1, m2, box)]
    for nc in chunks:
        first = None
        for team in TEAMS:
            for rep in range(c.get('reps', REPS)):
                set_team(team)
                try:
                    key = (c.get('length', LENGTH), c.get('dk', DK), nc)
                    if c.get('reuse') and reuse is not None:
                        # one Debyer object per chunk count serves all the inputs of the shard (other sizes, frames, boxes before this one)
                        deb = reuse.get(key)
                        if deb is None:
                            deb = reuse[key] = mod.Debyer(domain=dom, nthreads=nc)
                    else:
                        deb = mod.Debyer(domain=dom, nthreads=nc)
                    got = np.asarray(deb.calculate(p1, p2, m1, m2, box, selfo), dtype=float)
                except Exception as e:
                    rec.fail(dict(c, chunks=[nc], team=team), 'Debyer(nthreads=%d).calculate raised %s: %s' % (nc, type(e).__name__, str(e)[:100]), tags('raises'))
                    return
                rec.trans()
                if got.shape != want.shape or not np.all(np.isfinite(got)) or float(np.max(np.abs(got - want))) > tol:
                    dev = float(np.max(np.abs(got - want))) if got.shape == want.shape else float('nan')
                    rec.fail(dict(c, chunks=[nc], team=team),
                             'Debyer with %d chunks on %d OpenMP threads: %d sites, molecules %s, %s, box %s: omega deviates from the direct Debye sum by %.3g (allowed %.3g); '
                             'omega(k0) = %r, direct sum %r' % (nc, team, n, part, 'self' if selfo else 'cross split at %d' % split, boxname, dev, tol,
                                                                 float(got[0]) if got.size else None, float(want[0])),
                             tags('value', selfo=selfo),
                             repro=REPRO)
                    return
                if first is None:
                    first = got.copy()
                elif not np.array_equal(got, first):
                    # Today's code reduces the per-chunk rows in a fixed order, so the curves are bitwise equal.  An implementation
                    # that lets OpenMP reduce (order of the float32 additions depends on the team) is still within the property
                    # ("does not depend on the number of threads" to rounding): only a difference beyond float32 summation
                    # rounding is a violation.
                    dd = float(np.max(np.abs(got - first)))
                    rec.count('bitwise_differences_within_rounding')
                    if dd > dtol:
                        rec.fail(dict(c, chunks=[nc], team=team),
                                 'Debyer with %d chunks: the result on %d OpenMP threads (repetition %d) differs from the result on %d thread(s) by %.3g '
                                 '(float32 summation rounding allows %.3g): the curve depends on the team size / on timing'
                                 % (nc, team, rep, TEAMS[0], dd, dtol), tags('nondeterministic'))
                        return
        if npairs:
            rec.outcome(core.digest([n, part, frames, boxname, split, order, nc, c.get('length'), first[:16]], 5))
    if not all(np.array_equal(a, b) for a, b in zip((p1, p2, m1, m2, box), snap)):
        rec.fail(c, 'Debyer.calculate modified one of its input arrays', tags('purity'))
    rec.trace()
    return want


REPRO = ("# build the extension of the working tree (python setup.py build_ext --inplace with Cython), then\n"
         "# compare pyPRISM.trajectory.Debyer(domain, nthreads=n).calculate(...) with the double loop over intramolecular pairs\n"
         "# (see mc/props/c18.py: direct())")


NONDETERMINISM_IS_A_FINDING = True       # threads sharing an accumulator show up as run-to-run differences


def _replay_child(case):
    rec = Rec('C18')
    with warnings.catch_warnings():
        warnings.simplefilter('ignore')
        if case.get('sequence') and not case.get('kind'):
            # a violation found inside a sequence: replay the whole sequence it belongs to
            case_sequence(rec, {'kind': 'sequence', 'sizes': case['sequence'], 'chunks': case['chunks'], 'cross': case.get('split') is not None,
                                'blocks': case['molecules'] != [0] * case['n']})
        elif case.get('kind') == 'sequence':
            case_sequence(rec, case)
        else:
            case_input(rec, case)
    return rec.to_dict()


def replay(rec, case):
    """Native code is never executed in the main process: a crash or a hang of the extension is reported, not suffered."""
    import concurrent.futures as cf
    import multiprocessing as mp
    if case.get('kind') == 'build':
        mod, err = ensure_built()
        if mod is None:
            rec.fail(case, err, tags('build'))
        return
    ex = cf.ProcessPoolExecutor(max_workers=1, mp_context=mp.get_context('fork'))
    try:
        rec.merge(ex.submit(_replay_child, case).result(timeout=600))
    except cf.process.BrokenProcessPool:
        rec.fail(case, 'the process running the compiled extension died (memory corruption / abort) on this input', tags('crash'))
    except cf.TimeoutError:
        rec.fail(case, 'Debyer.calculate did not return within 600 s on this input', tags('hang'))
        for pr in list(getattr(ex, '_processes', {}).values()):
            try:
                pr.kill()
            except Exception:
                pass
    finally:
        ex.shutdown(wait=False, cancel_futures=True)


def case_sequence(rec, c, mod=None):
    """One Debyer object per chunk count serves a whole sequence of inputs of different sizes (all orders of the sizes are
    separate cases): every call answers for its own input, whatever was evaluated before on the same object."""
    if mod is None:
        mod, err = ensure_built()
        if mod is None:
            rec.fail(c, err, tags('build'))
            return
    reuse = {}
    for n in c['sizes']:
        sub = {'n': n, 'molecules': [i // 5 for i in range(n)] if c.get('blocks') else [0] * n, 'frames': 1, 'box': 'small',
               'split': (n // 2 if c.get('cross') else None), 'chunks': c['chunks'], 'reuse': True, 'sequence': c['sizes']}
        before = rec.nviol
        case_input(rec, sub, mod, reuse)
        if rec.nviol != before:
            return


def _worker(chunk):
    rec = Rec('C18')
    with warnings.catch_warnings():
        warnings.simplefilter('ignore')
        mod, err = ensure_built()
        if mod is None:
            raise HarnessError(err)
        reuse = {}
        for c in chunk:
            if c.get('kind') == 'sequence':
                case_sequence(rec, c, mod)
            else:
                case_input(rec, c, mod, reuse)
    return rec.to_dict()


def run(rec, tier, seed):
    mod, err = ensure_built()
    if mod is None:
        # the extension of the tree under test cannot be built: the property cannot hold for code that does not exist
        rec.fail({'kind': 'build'}, err, tags('build'))
        rec.state()
        rec.trans()
        rec.sample({'kind': 'build'})
        return
    quick = tier == 'quick'
    nmax = 5 if quick else 6
    cases = []
    for n in range(1, nmax + 1):
        parts = partitions(n)
        if n == 6:
            parts = parts[::3]
        for part in parts:
            for frames, boxname in (((1, 'small'), (2, 'large')) if quick else itertools.product((1, 2), BOXES)):
                cases.append({'n': n, 'molecules': part, 'frames': frames, 'box': boxname, 'split': None})
                for split in range(1, n):
                    cases.append({'n': n, 'molecules': part, 'frames': frames, 'box': boxname, 'split': split})
    # a box that changes from frame to frame (constant-pressure trajectory), 2 and 3 frames
    for n in (2, 3, 4):
        for part in partitions(n):
            for frames in (2, 3):
                cases.append({'n': n, 'molecules': part, 'frames': frames, 'box': 'npt', 'split': None, 'chunks': [1, 2, 3]})
                cases.append({'n': n, 'molecules': part, 'frames': frames, 'box': 'npt', 'split': 1, 'chunks': [1, 2, 3]})
    # long Fourier grids (thousands of bins, k up to 40..80): the wavenumber of every bin is dk*(q+1) to rounding
    for L, dk in (((2048, 0.02),) if quick else ((2048, 0.02), (4096, 0.01), (8192, 0.01))):
        for n, part in ((5, [0, 0, 0, 0, 0]), (13, [0] * 13), (13, [i // 7 for i in range(13)])):
            cases.append({'n': n, 'molecules': part, 'frames': 1, 'box': 'small', 'split': None, 'chunks': [1, 3], 'length': L, 'dk': dk})
            cases.append({'n': n, 'molecules': part, 'frames': 1, 'box': 'large', 'split': n // 2, 'chunks': [2], 'length': L, 'dk': dk})
    # unwrapped coordinates, arbitrary molecule labels, memory layouts / float32 positions, one object reused for all inputs
    for n in (3, 4, 5):
        for part in partitions(n)[::2]:
            for frames in (1, 2):
                cases.append({'n': n, 'molecules': part, 'frames': frames, 'box': 'small', 'split': None, 'chunks': [1, 2, 3], 'unwrap': True})
                cases.append({'n': n, 'molecules': part, 'frames': frames, 'box': 'npt', 'split': 1, 'chunks': [2], 'unwrap': True, 'labels': True})
                cases.append({'n': n, 'molecules': part, 'frames': frames, 'box': 'small', 'split': None, 'chunks': [2], 'labels': True, 'reuse': True})
    for n in (2, 5, 3, 7):
        for layout in ('fortran', 'float32', 'strided'):
            cases.append({'n': n, 'molecules': [i % 2 for i in range(n)], 'frames': 2, 'box': 'small', 'split': None, 'chunks': [1, 3], 'layout': layout, 'reuse': True})
    # one object, a sequence of inputs of different sizes: all orders of each size set, several chunk counts
    for sizes in ((13, 15, 16), (30, 32, 29), (5, 2, 7), (4, 9)):
        for perm in itertools.permutations(sizes):
            for cross, blocks in ((False, False), (True, False), (False, True)):
                cases.append({'kind': 'sequence', 'sizes': list(perm), 'chunks': [4, 3, 2], 'cross': cross, 'blocks': blocks})
    # contention: many pairs, few bins, many chunks and threads, more repetitions (a shared accumulator loses updates here)
    for n in ((60,) if quick else (60, 120)):
        cases.append({'n': n, 'molecules': [0] * n, 'frames': 2, 'box': 'small', 'split': None, 'chunks': [16, 7], 'reps': 6, 'length': 4, 'dk': 0.9})
        cases.append({'n': n, 'molecules': [0] * n, 'frames': 2, 'box': 'small', 'split': n // 2, 'chunks': [16], 'reps': 6, 'length': 4, 'dk': 0.9})
    # every order of the sites (self term), n <= 4
    for n in (2, 3, 4):
        for part in partitions(n):
            for order in itertools.permutations(range(n)):
                if list(order) == list(range(n)):
                    continue
                cases.append({'n': n, 'molecules': part, 'frames': 1, 'box': 'small', 'split': None, 'order': list(order), 'chunks': [1, 2, n]})
    # a longer chain: chunk counts that do not divide the number of sites
    for n, chunks in ((13, [1, 2, 3, 4, 5, 6, 7, 12, 13, 14, 16]), (50, [2, 3, 7, 16])) if quick else ((13, list(range(1, 17))), (50, [1, 2, 3, 7, 11, 16, 49, 50, 51]), (97, [3, 16])):
        for part in ([0] * n, [i // 4 for i in range(n)], [i % 3 for i in range(n)]):
            cases.append({'n': n, 'molecules': part, 'frames': 1, 'box': 'small', 'split': None, 'chunks': chunks})
            cases.append({'n': n, 'molecules': part, 'frames': 1, 'box': 'small', 'split': n // 3, 'chunks': chunks})
    # native code: a worker may crash (memory corruption) or hang; both are findings, not harness failures
    import concurrent.futures as cf
    import multiprocessing as mp
    nchunk = 64
    shards = [cases[i::nchunk] for i in range(nchunk) if cases[i::nchunk]]
    timeout = 600 if quick else 3600
    ex = cf.ProcessPoolExecutor(max_workers=min(WORKERS, core.nproc()), mp_context=mp.get_context('fork'))
    futs = [ex.submit(_worker, sh) for sh in shards]
    broken = None
    try:
        for sh, fu in zip(shards, futs):
            try:
                rec.merge(fu.result(timeout=timeout))
            except cf.process.BrokenProcessPool:
                broken = ('crash', 'a worker process running the compiled extension died (memory corruption / abort) while exploring inputs such as %r' % (sh[0],), sh[0])
                break
            except cf.TimeoutError:
                broken = ('hang', 'Debyer.calculate did not return within %d s while exploring inputs such as %r' % (timeout, sh[0]), sh[0])
                break
    finally:
        if broken is not None:
            for pr in list(getattr(ex, '_processes', {}).values()):
                try:
                    pr.kill()
                except Exception:
                    pass
        ex.shutdown(wait=broken is None, cancel_futures=True)
    if broken is not None:
        rec.fail(broken[2], broken[1], tags(broken[0]))
    rec.note('alphabets', {'sites': [1, nmax], 'molecule_partitions': 'all set partitions (every third for 6 sites)', 'boxes': BOXES,
                           'chunk_counts': '1..N+2 and 16', 'openmp_team_sizes': TEAMS, 'repetitions': REPS, 'site_orders': 'all permutations for N <= 4',
                           'domain': {'length': LENGTH, 'dk': DK}, 'long_domains': '(2048, 0.02) quick; + (4096, 0.01), (8192, 0.01) thorough',
                           'per_frame_boxes': 'npt: box scaled anisotropically from frame to frame (2 and 3 frames)',
                           'also': 'coordinates shifted by -3..3 box lengths per site and axis; molecule labels negative / non-contiguous; positions in Fortran order, float32, strided; one Debyer object reused for inputs of different sizes'})
    rec.note('not_enumerated', 'the interleaving of OpenMP threads inside one run')
    rec.note('exhaustive', False)
    rec.note('explanation', 'The product of inputs x chunk counts x OpenMP team sizes x repetitions listed under alphabets is enumerated completely on the compiled '
                            'code; the quantifier of the property also ranges over thread schedules inside one parallel region, which are only sampled by the '
                            'repetitions (no controllable OpenMP scheduler exists here), hence exhaustive=false.')
    rec.sample({'n': 4, 'molecules': [0, 1, 0, 1], 'frames': 1, 'box': 'small', 'split': None})
    rec.sample({'n': 5, 'molecules': [0, 0, 1, 1, 0], 'frames': 2, 'box': 'large', 'split': 2})
