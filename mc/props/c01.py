"""C01 - converged solutions satisfy the PRISM equation and every pair's
closure.  E1: lattice of systems (rank 1-3; every interaction kind per pair;
omega kinds; kT; densities; domains) x solver routes x guesses on the real
code.  A monitor re-derives after every cost evaluation what must have been
stored (exact per-evaluation invariants, no convergence needed); at every
converged root the residual-bounded terminal oracle is evaluated."""
from __future__ import annotations

import copy
import itertools
import warnings

import numpy as np

from mc import core, build, lattice
from mc.core import Rec, HarnessError
from mc.lattice import Tables, Monitor
from mc.refmodel import basic as ref

META = {
    'rule': ('states: systems built from the lattice (one PRISM object per system x route); transitions: monitored cost evaluations with the '
             'per-evaluation invariants checked + terminal checks at converged roots; traces: converged (system, route, guess) triples '
             '(each one a complete execution of the real solver); non-trivial: converged and some pair correlation differs from 1 by more than 1e-3 '
             'somewhere outside the core; distinct = digest of (system, g(r) rounded to 5 digits)'),
    'assumptions': ['Domain.to_fourier/to_real define the r<->k correspondence (C07/C08)',
                    'the property is conditional on convergence: non-converged routes are counted, never reported',
                    'grid points within 1e-6 of a contact distance are excluded (their classification is C10\'s known finding K2)'],
}

ROUTES_FULL = [('krylov', 'zeros'), ('krylov-tight', 'zeros'), ('hybr', 'zeros'), ('anderson', 'zeros'), ('broyden1', 'zeros'),
               ('df-sane', 'zeros'), ('krylov', 'bump'), ('krylov', 'neighbour')]
ROUTES_FAST = [('krylov', 'zeros'), ('df-sane', 'zeros'), ('anderson', 'zeros')]


def gen_spec(c):
    g = c['gen']
    if g[0] == 'rank1':
        spec = lattice.rank1(*g[1:])
    elif g[0] == 'rank2':
        spec = lattice.rank2(g[1], *g[2:])
    elif g[0] == 'rank3':
        spec = lattice.rank3(g[1], *g[2:])
    else:
        raise KeyError(g[0])
    if c.get('style'):
        spec['style'] = c['style']          # same specification, built through an edit history (build.make_system)
    return spec


def tags(kind, **kw):
    t = {'kind': kind}
    t.update(kw)
    return t


def finite(*arrs):
    return all(np.all(np.isfinite(a)) for a in arrs)


def prism_residual(T, Hs, Cf):
    """max |Hs - Omega C (Omega + Hs)| with Omega from the spec; returns (resid, scale, cond)."""
    Om = T.Omega
    OC = np.matmul(Om, Cf)
    rhs = np.matmul(OC, Om + Hs)
    n = T.n
    I = np.eye(n)[None, :, :]
    with np.errstate(all='ignore'):
        try:
            cond = float(np.max(np.linalg.cond(I - OC)))
        except np.linalg.LinAlgError:
            cond = float('inf')
    scale = max(1e-300, float(np.max(np.abs(np.matmul(OC, Om)))), float(np.max(np.abs(Hs))))
    return float(np.max(np.abs(Hs - rhs))), scale, cond


def eval_checks(rec, case, P, T, x, y):
    """Exact invariants that hold after ANY cost(x): stored H solves the matrix equation for the stored C;
    stored c is the closure of gamma_in = x/r for every pair; y is r*(gamma_out - gamma_in)."""
    import pyPRISM
    S = pyPRISM.Space
    dom = P.sys.domain
    L, n = len(T.r), T.n
    rec.trans()
    if P.directCorr.space != S.Fourier or P.totalCorr.space != S.Fourier:
        rec.fail(case, 'after cost(x) directCorr/totalCorr are flagged %s/%s' % (P.directCorr.space, P.totalCorr.space), tags('eval-flags'))
        return
    Cf, Hf = P.directCorr.data, P.totalCorr.data
    if not finite(Cf, Hf, y):
        rec.count('eval_nonfinite_skipped')
        return
    gin = x.reshape(L, n, n) / T.r[:, None, None]
    if float(np.max(np.abs(Cf))) > 1e10 or float(np.max(np.abs(gin))) > 1e6:
        rec.count('eval_wild_trial_point_skipped')      # exp overflow territory: round-trip noise swamps every comparison
        return
    resid, scale, cond = prism_residual(T, T.pair[None, :, :] * Hf, Cf)
    if cond < 1e6:
        if not resid <= 1e-9 * scale * cond:
            rec.fail(case, 'after a cost evaluation the stored totalCorr does not solve H = Omega C (Omega + H) for the stored directCorr and the '
                           'specified omega/densities: residual %.3g (scale %.3g, cond %.3g)' % (resid, scale, cond), tags('eval-prism'))
    else:
        rec.count('eval_illconditioned_skipped')
    for (i, j) in T.U:
        c_real = dom.to_real(Cf[:, i, j])
        d = T.U[(i, j)]
        variants = ['inside', 'outside'] if d['closure'][0] == 'MS' else ['inside']
        best = None
        for v in variants:
            c_ref, slope, coremask = T.closure_ref(i, j, gin[:, i, j], v)
            ok = np.isfinite(c_ref)
            m = ok & ~T.amb[(i, j)]
            # c_real comes through a to_fourier/to_real round trip: its noise is relative to the largest |c| of the pair
            tol = 1e-9 * max(1.0, float(np.max(np.abs(c_ref[m]))) if m.any() else 1.0, float(np.max(np.abs(c_real))))
            bad = m & (np.abs(c_real - c_ref) > tol)
            if best is None or bad.sum() < best[0].sum():
                best = (bad, c_ref, coremask)
        bad, c_ref, coremask = best
        if bad.any():
            form = None
            if d['closure'][0] == 'MS':
                kf = lattice.k1_form(d, gin[:, i, j], d['u'], c_real)
                form = 'K1' if np.all(kf[bad & ~coremask]) and not np.any(bad & coremask) else 'other'
            ii = int(np.argmax(np.where(bad, np.abs(c_real - c_ref), 0)))
            rec.fail(dict(case, pair=[i, j]),
                     'after a cost evaluation the stored c(r) of pair %s-%s is not that pair\'s closure (%s%s on %s, sigma=%g, u/kT from the spec) of gamma_in: '
                     'at r=%.4g c=%r, expected %r' % (T.types[i], T.types[j], d['closure'][0], '(hc)' if d['closure'][1] else '', d['potential'][0],
                                                     d['sig_clo'], T.r[ii], float(c_real[ii]), float(c_ref[ii])),
                     tags('eval-closure', cls=d['closure'][0], form=form))
            break
    # return value
    gout = np.empty((L, n, n))
    for i in range(n):
        for j in range(n):
            gout[:, i, j] = dom.to_real(Hf[:, i, j] - Cf[:, i, j])
    yref = (T.r[:, None, None] * (gout - gin)).reshape(-1)
    sc = max(1.0, float(np.max(np.abs(yref))))
    if not float(np.max(np.abs(np.asarray(y) - yref))) <= 1e-8 * sc:
        rec.fail(case, 'cost(x) does not return r*(gamma_out - gamma_in) of the arrays it stored (max deviation %.3g)' % float(np.max(np.abs(np.asarray(y) - yref))),
                 tags('eval-return'))


def terminal_checks(rec, case, P, T, res, spec):
    import pyPRISM
    S = pyPRISM.Space
    dom = P.sys.domain
    L, n = len(T.r), T.n
    rec.trans()
    F = np.asarray(res.fun, dtype=float).reshape(L, n, n)
    if P.totalCorr.space != S.Real:
        rec.fail(case, 'after solve totalCorr is flagged %s' % P.totalCorr.space, tags('terminal-flags'))
        return None
    h = P.totalCorr.data
    Cm = P.directCorr.get_copy()
    if Cm.space == S.Real:
        dom.MatrixArray_to_fourier(Cm)
    Cf = Cm.data
    if not finite(h, Cf, F):
        rec.fail(case, 'solve reported success but the stored arrays are not finite', tags('terminal-finite'))
        return None
    # stored arrays are those of the returned root
    fresh = build.create_prism(spec)
    with warnings.catch_warnings(), np.errstate(all='ignore'):
        warnings.simplefilter('ignore')
        yf = fresh.cost(np.array(res.x, dtype=float))
        dom.MatrixArray_to_real(fresh.totalCorr)
    sc = max(1.0, float(np.max(np.abs(fresh.totalCorr.data))))
    if float(np.max(np.abs(fresh.totalCorr.data - h))) > 1e-9 * sc or float(np.max(np.abs(fresh.directCorr.data - Cf))) > 1e-9 * max(1.0, float(np.max(np.abs(Cf)))):
        rec.fail(case, 'after a successful solve the stored correlation arrays are not those of the returned root (fresh evaluation at result.x differs by %.3g)'
                 % float(np.max(np.abs(fresh.totalCorr.data - h))), tags('terminal-root'))
        return None
    if float(np.max(np.abs(np.asarray(yf).reshape(L, n, n) - F))) > 1e-9 * max(1.0, float(np.max(np.abs(F)))) + 1e-12:
        rec.fail(case, 'the residual the solver reports is not cost(result.x)', tags('terminal-root'))
    # PRISM equation with Omega from the spec and H from the stored real-space h
    Hs = np.empty((L, n, n))
    for i in range(n):
        for j in range(n):
            Hs[:, i, j] = T.pair[i, j] * dom.to_fourier(h[:, i, j])
    resid, scale, cond = prism_residual(T, Hs, Cf)
    if not resid <= 1e-9 * scale * cond:
        rec.fail(case, 'converged solution violates H = Omega C (Omega + H): residual %.3g (scale %.3g, cond(I - Omega C) %.3g)' % (resid, scale, cond),
                 tags('terminal-prism'))
    # closure of every pair, bounded by the reported residual times the local slope
    nontrivial = False
    for (i, j) in T.U:
        d = T.U[(i, j)]
        c_real = dom.to_real(Cf[:, i, j])
        gam = h[:, i, j] - c_real
        variants = ['inside', 'outside'] if d['closure'][0] == 'MS' else ['inside']
        best = None
        for v in variants:
            c_ref, slope, coremask = T.closure_ref(i, j, gam, v)
            dg = np.abs(F[:, i, j]) / T.r
            with np.errstate(all='ignore'):
                curv = np.abs(slope) + 1.0 + np.abs(gam)
            bound = 1.01 * np.abs(slope) * dg + 2.0 * curv * dg * dg + 1e-9 * (1.0 + np.abs(c_ref))
            m = np.isfinite(c_ref) & ~T.amb[(i, j)]
            bad = m & ~(np.abs(c_real - c_ref) <= bound)
            if best is None or bad.sum() < best[0].sum():
                best = (bad, c_ref, bound, coremask)
        bad, c_ref, bound, coremask = best
        if bad.any():
            form = None
            if d['closure'][0] == 'MS':
                kf = lattice.k1_form(d, gam, d['u'], c_real)
                form = 'K1' if not np.any(bad & coremask) else 'other'
            ii = int(np.argmax(np.where(bad, np.abs(c_real - c_ref) / bound, 0)))
            rec.fail(dict(case, pair=[i, j]),
                     'converged solution: pair %s-%s violates its closure (%s%s on %s): at r=%.4g c=%r but closure(h-c, u/kT)=%r; |difference| %.3g exceeds slope*|F|/r bound %.3g'
                     % (T.types[i], T.types[j], d['closure'][0], '(hc)' if d['closure'][1] else '', d['potential'][0], T.r[ii], float(c_real[ii]),
                        float(c_ref[ii]), abs(float(c_real[ii] - c_ref[ii])), float(bound[ii])),
                     tags('terminal-closure', cls=d['closure'][0], form=form))
        cm = T.core_mask(i, j)
        out = ~cm if cm is not None else np.ones(L, dtype=bool)
        if np.any(np.abs(h[:, i, j][out]) > 1e-3):
            nontrivial = True
    return (h if nontrivial else None)


def run_route(rec, case, spec, route, guess):
    P = build.create_prism(spec)
    if not build.domain_ok(P.sys.domain):
        rec.count('skipped_preconditions')
        return False
    T = Tables(spec, P.sys.domain)
    x0 = None
    if guess == 'neighbour':
        nb = build.ramp_spec(spec, 0.8)
        Pn = build.create_prism(nb)
        rn = build.try_solve(Pn, 'krylov')
        if rn is None:
            rec.count('neighbour_guess_unavailable')
            return False
        x0 = np.array(rn.x)
    elif guess != 'zeros':
        x0 = lattice.guesses(spec, guess)
    c2 = dict(case, route=route, guess=guess)
    mon = Monitor(P, lambda x, y: eval_checks(rec, c2, P, T, x, y), every=case.get('every', 1), first=case.get('first', 25))
    rec.count('routes_attempted')
    try:
        res = build.try_solve(P, route, guess=x0)
    finally:
        mon.detach()
    rec.count('evaluations_total', mon.n)
    if res is None:
        rec.count('routes_not_converged')
        return False
    rec.count('routes_converged')
    h = terminal_checks(rec, c2, P, T, res, spec)
    rec.trace()
    if h is not None:
        rec.outcome(core.digest([case['gen'], np.round(h[::4], 5)], 6))
    return True


def case_system(rec, c):
    spec = gen_spec(c)
    rec.state()
    rec.count('systems_attempted')
    any_conv = False
    for route, guess in c['routes']:
        try:
            ok = run_route(rec, c, spec, route, guess)
        except HarnessError:
            raise
        any_conv = any_conv or ok
    if any_conv:
        rec.count('systems_converged')
    kinds = sorted(set(p['closure'][0] + ('hc' if p['closure'][1] else '') + '+' + p['potential'][0] for p in spec['pairs'].values()))
    for kd in kinds:
        rec.count('kind_attempted:' + kd)
        if any_conv:
            rec.count('kind_converged:' + kd)


def replay(rec, case):
    with warnings.catch_warnings(), np.errstate(all='ignore'):
        warnings.simplefilter('ignore')
        c = dict(case)
        if 'route' in c:            # a replay of one violating route
            c['routes'] = [[c['route'], c['guess']]]
        case_system(rec, c)


def _worker(chunk):
    rec = Rec('C01')
    for c in chunk:
        replay(rec, c)
    return rec.to_dict()


def latin_triples(names):
    n = len(names)
    return [(names[a], names[b], names[(-(a + b)) % n]) for a in range(n) for b in range(n)]


def run(rec, tier, seed):
    quick = tier == 'quick'
    K = build.KIND_NAMES
    cases = []
    rhos = [0.2, 0.5, 0.8]
    kTs = [0.8, 2.5]
    if seed:
        phi = 0.6180339887498949
        rhos = rhos + [round(0.1 + ((seed * phi) % 1.0) * 0.6, 4)]
    for kind, omk, rho, kT in itertools.product(K, lattice.OMEGA1, rhos, kTs):
        routes = ROUTES_FULL if (not quick or (omk in ('single', 'gauss6') and kT == 0.8)) else ROUTES_FAST
        cases.append({'gen': ['rank1', kind, omk, rho, kT], 'routes': [list(r) for r in routes], 'every': 1 if not quick else 5})
    for dom in ('96x0.1', '256x0.05', '128xdk0.25', '96xdk0.3', '118x0.1', '127xdk0.2'):
        for kind in K:
            cases.append({'gen': ['rank1', kind, 'gauss6', 0.5, 1.0, dom], 'routes': [list(r) for r in ROUTES_FAST], 'every': 5})
    # the same specifications reached through an edit history (kT assigned after construction, list keys, overwrites)
    for kind in K:
        cases.append({'gen': ['rank1', kind, 'fjc5', 0.5, 2.5], 'routes': [list(r) for r in ROUTES_FAST], 'every': 5, 'style': 'edits'})
    for i, tr in enumerate(latin_triples(K)):
        if i % (7 if quick else 2) == 0:
            cases.append({'gen': ['rank2', list(tr), 0, 2.5], 'routes': [list(r) for r in ROUTES_FAST], 'every': 7, 'style': 'edits'})
    # every pair with the same interaction kind (unequal diameters and densities, so the pairs still differ), the closure and
    # potential tables filled by ONE statement: table[types, types] = obj, or table.setUnset(obj)
    for kind in K:
        for st in ('bulk-list', 'bulk-setunset'):
            cases.append({'gen': ['rank2', [kind, kind, kind], 0, 1.0], 'routes': [list(r) for r in ROUTES_FAST], 'every': 7, 'style': st})
    triples = latin_triples(K) if quick else list(itertools.product(K, repeat=3))
    for tr in triples:
        for omset, kT in ([(0, 1.0)] if quick else [(0, 1.0), (1, 1.0), (0, 2.5)]):
            cases.append({'gen': ['rank2', list(tr), omset, kT], 'routes': [list(r) for r in ROUTES_FAST], 'every': 7})
    R3 = lattice.R3_KINDS
    if quick:
        six = [[R3[(a + b * p) % 4] for p in range(6)] for a in range(4) for b in range(4)]      # 16 assignments, every kind in every position
    else:
        six = [list(s) for s in itertools.product(R3, repeat=6)]
    for s in six:
        cases.append({'gen': ['rank3', s, 1.0], 'routes': [list(r) for r in ROUTES_FAST], 'every': 11})
    # rank 3 with a copolymer (non-zero cross omega between A and B) next to a third species
    for s in (six[::4] if quick else six[::16]):
        cases.append({'gen': ['rank3', s, 1.0, '128x0.1', 1], 'routes': [list(r) for r in ROUTES_FAST], 'every': 11})
    nchunk = 64 if quick else 512
    chunks = [cases[i::nchunk] for i in range(nchunk)]
    core.pmap(_worker, [c for c in chunks if c], rec)
    att, conv = rec.c.get('systems_attempted', 0), rec.c.get('systems_converged', 0)
    rec.note('attempted/converged', {'systems': [att, conv], 'routes': [rec.c.get('routes_attempted', 0), rec.c.get('routes_converged', 0)]})
    if att and conv < 0.3 * att:
        raise HarnessError('only %d of %d systems converged by any route: nothing decided' % (conv, att))
    rec.note('alphabets', {'kinds': K, 'omega_rank1': list(lattice.OMEGA1), 'densities_rank1': rhos, 'kT_rank1': kTs,
                           'rank2': 'kind triples: %d x (omega set, kT) variants' % len(triples), 'rank3': '%d assignments of 4 kinds to 6 pairs' % len(six),
                           'routes': [list(r) for r in ROUTES_FULL], 'domains': list(lattice.DOMAINS)})
    rec.note('monitor', 'per-evaluation invariants checked at the first 25 evaluations of each solve and every `every`-th after that '
                        '(every=1 on the thorough rank-1 lattice)')
    rec.sample(cases[0])
    rec.sample({'gen': ['rank2', ['PY+HS', 'HNChc+HCLJ', 'PY+EXP'], 0, 1.0], 'routes': [['krylov', 'zeros']], 'every': 7})
