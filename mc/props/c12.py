"""C12 - tabulated omega is used verbatim on a matching grid and rejected
otherwise.  E1: source layout x length relation x k perturbation (incl. every
single point moved just inside / just outside numpy.allclose) x Domains on the
real FromArray / FromFile / System / PRISM code."""
from __future__ import annotations

import atexit
import os
import shutil
import tempfile
import warnings

import numpy as np

from mc import core, build
from mc.core import Rec, HarnessError

META = {
    'rule': ('states: (domain, source layout, length relation, k perturbation) configurations; transitions: real calls made '
             '(constructor, calculate, createPRISM, cost) with the verbatim-or-rejected oracle; traces: configurations decided; '
             'non-trivial: every configuration (each either returns data that is compared bit for bit or must be rejected); distinct = '
             'digest of the configuration and its verdict'),
    'assumptions': ['numpy.allclose(file_k, domain_k) with default rtol=1e-5, atol=1e-8 defines "differs beyond tolerance"',
                    'text files are written with 17 significant digits so that loadtxt reproduces the doubles exactly',
                    'two-column files with a single row are excluded (loadtxt cannot tell them from a one-column file of two rows)'],
}

SOURCES = ['array_list', 'array_nd', 'array_k', 'file1', 'file2']
LENREL = ['equal', 'minus1', 'plus1', 'double', 'half', 'one']      # 'one': a single data point (skipped for two-column files, see DESIGN)
RTOL, ATOL = 1e-5, 1e-8
_SCRATCH = None


def scratch():
    global _SCRATCH
    if _SCRATCH is None or not os.path.isdir(_SCRATCH) or _SCRATCH_PID != os.getpid():
        _make_scratch()
    return _SCRATCH


_SCRATCH_PID = None


def _make_scratch():
    global _SCRATCH, _SCRATCH_PID
    _SCRATCH = tempfile.mkdtemp(prefix='c12_', dir=os.environ.get('TMPDIR') or None)
    _SCRATCH_PID = os.getpid()
    d = _SCRATCH
    pid = _SCRATCH_PID
    atexit.register(lambda: shutil.rmtree(d, ignore_errors=True) if os.getpid() == pid else None)


def cleanup():
    global _SCRATCH
    if _SCRATCH is not None and _SCRATCH_PID == os.getpid():
        shutil.rmtree(_SCRATCH, ignore_errors=True)
        _SCRATCH = None


def omega_values(k):
    # takes both signs (the cross term of a freely jointed diblock is negative where sin(kl)/(kl) is) and has no symmetry
    return 1.0 + 5.0 / (1.0 + k * k) + 0.01 * np.sin(37.0 * k) - 2.5 * np.sin(1.7 * k) ** 2 * np.exp(-0.05 * k)


def target_length(L, rel):
    return {'equal': L, 'minus1': L - 1, 'plus1': L + 1, 'double': 2 * L, 'half': max(2, L // 2), 'one': 1}[rel]


def perturbed_k(k, dk, M, pert):
    """k column of M points for the supplied data."""
    base = dk * np.arange(1, M + 1, dtype=float)
    if M == len(k):
        base = k.copy()
    kind = pert[0]
    if kind == 'none':
        return base
    if kind == 'shift':
        return base + 0.5 * dk
    if kind == 'rescale':
        return base * 1.01
    if kind == 'reverse':             # the table stored high-k first: an exact permutation of the grid values
        return base[::-1].copy()
    if kind == 'swap':                # two neighbouring rows exchanged
        out = base.copy()
        j = pert[1]
        if j + 1 < M:
            out[j], out[j + 1] = base[j + 1], base[j]
        return out
    if kind == 'nan':
        out = base.copy()
        if pert[1] == 'all':
            out[:] = np.nan
        elif pert[1] < M:
            out[pert[1]] = np.nan
        return out
    j = pert[1]
    if j >= M:
        return base
    ref = k[j] if j < len(k) else base[j]
    tol = ATOL + RTOL * abs(ref)
    out = base.copy()
    out[j] = base[j] + (0.5 * tol if kind == 'inside' else 2.0 * tol) * (1 if j % 2 == 0 else -1)
    return out


def expected_ok(src, rel, pert, L):
    if rel != 'equal':
        return False
    if src in ('array_k', 'file2'):
        if pert[0] in ('shift', 'rescale', 'outside', 'nan'):
            return False
        if pert[0] == 'reverse' and L > 1:
            return False
        if pert[0] == 'swap' and pert[1] + 1 < L:
            return False
    return True


def make_source(src, vals, kcol, tag):
    import pyPRISM
    O = pyPRISM.omega
    caller = {}
    if src == 'array_list':
        lst = [float(v) for v in vals]
        caller['data'] = lst
        return O.FromArray(lst), caller
    if src == 'array_nd':
        arr = np.array(vals, dtype=float)
        caller['data'] = arr
        return O.FromArray(arr), caller
    if src == 'array_k':
        arr = np.array(vals, dtype=float)
        kk = np.array(kcol, dtype=float)
        caller['data'] = arr
        caller['k'] = kk
        return O.FromArray(arr, kk), caller
    path = os.path.join(scratch(), 'omega_%s.dat' % tag)
    with open(path, 'w') as fh:
        if src == 'file1':
            for v in vals:
                fh.write('%.17g\n' % v)
        else:
            for a, v in zip(kcol, vals):
                fh.write('%.17g %.17g\n' % (a, v))
    return O.FromFile(path), caller


def rank1_system(dom, omega_obj):
    import pyPRISM
    s = pyPRISM.System(['A'], kT=1.0)
    s.domain = dom
    s.density['A'] = 0.37
    s.diameter['A'] = 1.0
    s.closure['A', 'A'] = pyPRISM.closure.PercusYevick()
    s.potential['A', 'A'] = pyPRISM.potential.HardSphere()
    s.omega['A', 'A'] = omega_obj
    return s


def rank2_system(dom, omega_obj):
    import pyPRISM
    s = pyPRISM.System(['A', 'B'], kT=1.0)
    s.domain = dom
    s.density['A'] = 0.2
    s.density['B'] = 0.3
    s.diameter[['A', 'B']] = 1.0
    s.closure[['A', 'B'], ['A', 'B']] = pyPRISM.closure.PercusYevick()
    s.potential[['A', 'B'], ['A', 'B']] = pyPRISM.potential.HardSphere()
    # a second, different tabulated entry in the same System (A-A), the entry under test in B-B
    s.omega['A', 'A'] = pyPRISM.omega.FromArray(1.0 + 2.0 / (1.0 + np.asarray(dom.k) ** 2))
    s.omega['A', 'B'] = pyPRISM.omega.NoIntra()
    s.omega['B', 'B'] = omega_obj
    return s


def rank3_tables(dom):
    k = np.asarray(dom.k)
    # the FIRST table is single precision (data read from a float32 file): the exported matrix is double all the same
    return {('A', 'A'): (1.0 + 2.0 / (1.0 + k ** 2)).astype(np.float32), ('A', 'B'): 0.5 * np.exp(-0.3 * k), ('A', 'C'): -0.25 * np.sin(k) / (1.0 + k),
            ('B', 'C'): 0.125 / (1.0 + 0.5 * k), ('C', 'C'): 1.0 + 7.0 * np.exp(-k * k)}


def rank3_system(dom, omega_obj):
    """Three types, SIX different tabulated entries (the entry under test in B-B): each pair must receive its own table."""
    import pyPRISM
    s = pyPRISM.System(['A', 'B', 'C'], kT=1.0)
    s.domain = dom
    for t, rho in RHO3.items():
        s.density[t] = rho
    s.diameter[['A', 'B', 'C']] = 1.0
    s.closure[['A', 'B', 'C'], ['A', 'B', 'C']] = pyPRISM.closure.PercusYevick()
    s.potential[['A', 'B', 'C'], ['A', 'B', 'C']] = pyPRISM.potential.HardSphere()
    for key, tab in rank3_tables(dom).items():
        s.omega[key] = pyPRISM.omega.FromArray(tab)
    s.omega['B', 'B'] = omega_obj
    return s


RHO3 = {'A': 0.2, 'B': 0.3, 'C': 0.11}


def tags(src, kind):
    return {'source': src, 'kind': kind}


def case_one(rec, c):
    src, rel, pert = c['source'], c['lenrel'], c['pert']
    dom = build.make_domain(c['domain'])
    if not build.domain_ok(dom):
        rec.count('skipped_preconditions')
        return
    L = dom.length
    k = dom.k
    M = target_length(L, rel)
    if pert[0] == 'kdomain':          # data of the wrong length next to a k column that *is* the domain grid
        kcol = k.copy()
        vals = omega_values(dom.dk * np.arange(1, M + 1, dtype=float))
    elif pert[0] == 'datadomain':     # data of the right length next to a k column of the wrong length
        kcol = perturbed_k(k, dom.dk, M, ['none'])
        vals = omega_values(dom.dk * np.arange(1, L + 1, dtype=float))
    else:
        kcol = perturbed_k(k, dom.dk, M, pert)
        vals = omega_values(dom.dk * np.arange(1, M + 1, dtype=float))
    vals0 = vals.copy()
    kcol0 = np.array(kcol, dtype=float, copy=True)
    tag = core.digest(repr(c))
    obj, caller = make_source(src, vals, kcol, tag)
    rec.state()
    rec.trans()
    # later changes to the caller's objects must not leak
    if 'data' in caller:
        if isinstance(caller['data'], list):
            caller['data'][0] = 999.0
        else:
            caller['data'][0] = 999.0
    if 'k' in caller:
        caller['k'][:] = caller['k'] * 3.0
    want_ok = expected_ok(src, rel, pert, L)
    k0 = k.copy()
    try:
        got = obj.calculate(k)
        rec.trans()
        raised = None
    except Exception as e:
        raised = e
        # a retry with the very same grid object is refused as well
        try:
            obj.calculate(k)
            rec.fail(c, '%s: mismatching data (%s, %r) was refused once, but a second calculate() with the same grid was accepted' % (src, rel, pert),
                     tags(src, 'accepted-mismatch'))
            return
        except Exception:
            pass
    if not np.array_equal(k, k0):
        rec.fail(c, 'calculate modified the domain k grid', tags(src, 'purity'))
    verdict = None
    if want_ok:
        if raised is not None:
            rec.fail(c, '%s on a matching grid raised %s: %s' % (src, type(raised).__name__, str(raised)[:80]), tags(src, 'rejected-valid'))
            return
        got = np.asarray(got)
        if got.shape != vals0.shape or not np.array_equal(got, vals0):
            nb = int(np.sum(got != vals0)) if got.shape == vals0.shape else -1
            rec.fail(c, '%s: returned values are not the supplied data bit for bit (%d entries differ; first entry %r vs supplied %r)'
                     % (src, nb, float(np.ravel(got)[0]) if got.size else None, float(vals0[0])), tags(src, 'not-verbatim'))
            return
        again = np.asarray(obj.calculate(k))
        if not np.array_equal(again, vals0):
            rec.fail(c, '%s: second evaluation differs from the supplied data' % src, tags(src, 'not-verbatim'))
        # PRISM.omega after createPRISM = data x site density, for rank 1 and as the (B,B) block of rank 2
        for mk, rho, key in ((rank1_system, 0.37, ('A', 'A')), (rank2_system, 0.3, ('B', 'B'))):
            obj2, _ = make_source(src, vals0, perturbed_k(k, dom.dk, M, pert), tag + key[0])
            try:
                S_ = mk(dom, obj2)
                P = S_.createPRISM()
                rec.trans()
            except Exception as e:
                rec.fail(c, 'createPRISM with matching tabulated omega raised %s: %s' % (type(e).__name__, str(e)[:80]), tags(src, 'rejected-valid'))
                continue
            if not np.array_equal(P.omega[key], vals0 * rho):
                rec.fail(c, 'PRISM.omega[%s,%s] is not the supplied data times the site density' % key, tags(src, 'not-verbatim'))
            if key == ('B', 'B') and not np.array_equal(P.omega['A', 'A'], (1.0 + 2.0 / (1.0 + np.asarray(dom.k) ** 2)) * 0.2):
                rec.fail(c, 'PRISM.omega[A,A] (a second tabulated entry of the same System) is not its own data times the site density', tags(src, 'not-verbatim'))
            # the System keeps the table verbatim: a second and third PRISM object built from it see the same data
            try:
                P2 = S_.createPRISM()
                P3 = S_.createPRISM()
                rec.trans(2)
                still = np.asarray(S_.omega[key].calculate(dom.k))
            except Exception as e:
                rec.fail(c, 'second createPRISM from the same System raised %s: %s' % (type(e).__name__, str(e)[:80]), tags(src, 'rejected-valid'))
                continue
            if not (np.array_equal(P2.omega[key], vals0 * rho) and np.array_equal(P3.omega[key], vals0 * rho) and np.array_equal(P.omega[key], vals0 * rho)):
                rec.fail(c, 'PRISM.omega[%s,%s] of a second/third PRISM object built from the same System is not the supplied data times the site density' % key,
                         tags(src, 'not-verbatim'))
            if not np.array_equal(still, vals0):
                rec.fail(c, 'after createPRISM the table stored in the System no longer returns the supplied data', tags(src, 'not-verbatim'))
        # rank 3: six different tables in one System, every pair of the exported matrix holds its own table x its site density
        obj3_, _ = make_source(src, vals0, perturbed_k(k, dom.dk, M, pert), tag + 'r3')
        try:
            P = rank3_system(dom, obj3_).createPRISM()
            rec.trans()
            tabs = dict(rank3_tables(dom))
            tabs[('B', 'B')] = vals0
            for (a, b), tab in tabs.items():
                site = RHO3[a] if a == b else RHO3[a] + RHO3[b]
                for x, y in ((a, b), (b, a)):
                    if P.omega[x, y].dtype != np.float64 or not np.array_equal(P.omega[x, y], np.asarray(tab, dtype=float) * site):
                        rec.fail(c, 'rank-3 System with six different tabulated omegas: PRISM.omega[%s,%s] is not the table supplied for that pair times its site density' % (x, y),
                                 tags(src, 'not-verbatim'))
                        break
        except Exception as e:
            rec.fail(c, 'createPRISM of a rank-3 System with matching tabulated omegas raised %s: %s' % (type(e).__name__, str(e)[:80]), tags(src, 'rejected-valid'))
        verdict = 'verbatim'
    else:
        if True:
            # Whatever the source and whether or not a direct calculate() raised: stored in a System (which copies
            # the table), no PRISM object whose cost can be evaluated may come out of mismatching data.
            # (A one-column file of the wrong length may pass calculate() and be rejected here.)
            produced = []
            for mk in (rank1_system, rank2_system, rank3_system):
                obj2, _ = make_source(src, vals0, kcol0, tag + mk.__name__)
                try:
                    P = mk(dom, obj2).createPRISM()
                    rec.trans()
                except Exception:
                    continue
                try:
                    n = P.sys.rank * P.sys.rank * L
                    y = P.cost(np.zeros(n))
                    rec.trans()
                    produced.append(mk.__name__)
                except Exception:
                    continue
            if produced:
                rec.fail(c, '%s with %s data (%d points for a domain of %d, k perturbation %r) was accepted and a cost evaluation succeeded (%s)'
                         % (src, rel, M, L, pert, ', '.join(produced)), tags(src, 'accepted-mismatch'))
                return
            if raised is None and src != 'file1':
                rec.fail(c, '%s with mismatching data (%s, %r) did not raise when evaluated' % (src, rel, pert), tags(src, 'accepted-mismatch'))
                return
            verdict = 'rejected at calculate' if raised is not None else 'rejected at createPRISM/cost'
            # the same object after a successful evaluation on ITS OWN matching grid: a mismatching grid is still refused
            if src in ('array_k', 'file2') and pert[0] in ('none',) and rel in ('double', 'half', 'plus1', 'minus1'):
                own = build.make_domain({'length': M, 'dk': float(dom.dk)})
                obj3, _ = make_source(src, vals0, kcol0, tag + 'own')
                if build.domain_ok(own) and len(kcol0) == M and np.allclose(own.k, kcol0):
                    try:
                        first = np.asarray(obj3.calculate(own.k))
                        rec.trans()
                    except Exception as e:
                        rec.fail(c, '%s: evaluation on its own matching grid (length %d) raised %s' % (src, M, type(e).__name__), tags(src, 'rejected-valid'))
                        return
                    try:
                        obj3.calculate(k)
                        rec.fail(c, '%s: after one evaluation on its matching grid (length %d) the same object accepted a grid of length %d' % (src, M, L),
                                 tags(src, 'accepted-mismatch'))
                        return
                    except Exception:
                        pass
    rec.trace()
    rec.outcome(core.digest([c['domain'], src, rel, pert, verdict]))


def replay(rec, case):
    with warnings.catch_warnings(), np.errstate(all='ignore'):
        warnings.simplefilter('ignore')
        try:
            case_one(rec, case)
        finally:
            cleanup()


def cases_for(dspec, every_point):
    L = dspec['length']
    out = []
    for src in SOURCES:
        for rel in LENREL:
            if rel == 'one' and (src == 'file2' or L == 1):
                continue
            perts = [['none']]
            if src in ('array_k', 'file2'):
                perts += [['shift'], ['rescale'], ['nan', 'all'], ['nan', 0], ['nan', L // 2], ['reverse'], ['swap', 0], ['swap', L // 2], ['swap', max(0, L - 2)]]
                if rel == 'equal':
                    pts = range(L) if every_point else sorted(set([0, 1, L // 2, L - 2, L - 1]))
                    for j in pts:
                        perts.append(['inside', j])
                        perts.append(['outside', j])
                else:
                    perts += [['outside', 0]]
                    if src == 'array_k':
                        perts += [['kdomain'], ['datadomain']]
            for p in perts:
                out.append({'domain': dspec, 'source': src, 'lenrel': rel, 'pert': p})
    return out


def _worker(chunk):
    rec = Rec('C12')
    with warnings.catch_warnings(), np.errstate(all='ignore'):
        warnings.simplefilter('ignore')
        try:
            for c in chunk:
                case_one(rec, c)
        finally:
            cleanup()
    return rec.to_dict()


def run(rec, tier, seed):
    if tier == 'quick':
        doms = [{'length': 24, 'dr': 0.1}, {'length': 50, 'dk': 0.05}, {'length': 3, 'dr': 0.2}, {'length': 127, 'dk': 0.1}]
    else:
        doms = [{'length': 24, 'dr': 0.1}, {'length': 50, 'dk': 0.05}, {'length': 3, 'dr': 0.2}, {'length': 100, 'dr': 0.1},
                {'length': 127, 'dk': 0.1}, {'length': 256, 'dr': 0.025}, {'length': 5, 'dk': 0.4}, {'length': 13, 'dr': 0.3}, {'length': 64, 'dr': 0.1},
                {'length': 200, 'dk': 0.05}, {'length': 512, 'dr': 0.05}, {'length': 1000, 'dr': 0.1}]
    cases = []
    for d in doms:
        cases += cases_for(d, True)
    chunks = [cases[i::32] for i in range(32)]
    core.pmap(_worker, [c for c in chunks if c], rec)
    rec.note('alphabets', {'sources': SOURCES, 'length_relations': LENREL, 'domains': doms,
                           'k_perturbations': ['none', 'shift dk/2', 'rescale 1.01', 'every single point moved 0.5x / 2x the allclose tolerance',
                                                'array+k: data of the wrong length with the exact domain k column, and data of the right length with a k column of the wrong length']})
    rec.sample({'domain': {'length': 24, 'dr': 0.1}, 'source': 'file2', 'lenrel': 'equal', 'pert': ['outside', 7]})
    rec.sample({'domain': {'length': 50, 'dk': 0.05}, 'source': 'file1', 'lenrel': 'double', 'pert': ['none']})
