"""C11 - analytic omega(k) models equal their defining pair sums and obey the
sum rules.  E1: model x N x geometry x k alphabets (decade ladder 1e-4..1e3 and
every k of a set of Domains) evaluated on the real classes against explicit
sums over separations."""
from __future__ import annotations

import itertools
import math
import warnings

import numpy as np

from mc import core, build
from mc.core import Rec, HarnessError
from mc.refmodel import chains as ch
from mc.refmodel.basic import sinc

META = {
    'rule': ('states: omega objects constructed (model x N x geometry); transitions: real calculate(k) calls (whole k array and singletons) '
             'with the oracle evaluated; traces: (object, k set) cases decided; non-trivial: value compared with the explicit pair sum at a k '
             'where 1e-3 < omega/N < 0.999 or the model is k-independent; distinct = digest of (model, parameters, k set, values)'),
    'assumptions': ['NFJC reference: exact Rayleigh-Treloar density + 96-point Gauss-Legendre; tolerance 2.5e-4*N is the accuracy of the shipped fixed-grid Simpson rule (measured error 1.2e-4*N at most, correction itself 0.03-0.06*N)',
                    'DiscreteKoyama: <r^2>, <r^4> per separation from an independent moment propagation of the bond-angle model (48-point Gauss-Legendre in the bond-angle cosine, '
                    'uniform torsion average, own bisection for the bending energy); tolerance 5e-6 relative (the shipped linearisation close to lp_min is accurate to 2.2e-7); '
                    'the sum structure is additionally checked against the class\'s own kernel to 1e-11'],
}

EPS = np.finfo(float).eps
DECADES = [m * 10.0 ** e for e in range(-4, 3) for m in (1.0, 2.0, 5.0)] + [1e3]


def kset(name):
    if name == 'decades':
        return np.array(DECADES)
    dspec = {'dr0.1x1024': {'length': 1024, 'dr': 0.1}, 'dr0.025x4096': {'length': 4096, 'dr': 0.025},
             'dk0.1x256': {'length': 256, 'dk': 0.1}, 'dk0.05x100': {'length': 100, 'dk': 0.05},
             'dr0.1x128': {'length': 128, 'dr': 0.1}, 'dr0.1x600': {'length': 600, 'dr': 0.1}}[name]
    d = build.make_domain(dspec)
    if not build.domain_ok(d):
        return None
    return np.array(d.k)


def make(model, p):
    import pyPRISM
    O = pyPRISM.omega
    if model == 'Gaussian':
        return O.Gaussian(sigma=p['sigma'], length=p['N'])
    if model == 'FJC':
        return O.FreelyJointedChain(length=p['N'], l=p['l'])
    if model == 'FJCalias':
        return O.FJC(length=p['N'], l=p['l'])
    if model == 'GaussianRing':
        return O.GaussianRing(sigma=p['sigma'], length=p['N'])
    if model == 'NFJC':
        return O.NonOverlappingFreelyJointedChain(length=p['N'], l=p['l'])
    if model == 'NFJCalias':
        return O.NFJC(length=p['N'], l=p['l'])
    if model == 'DiscreteKoyama':
        return O.DiscreteKoyama(sigma=p['sigma'], l=p['l'], length=p['N'], lp=p['lp'])
    if model == 'SingleSite':
        return O.SingleSite()
    if model == 'NoIntra':
        return O.NoIntra()
    if model == 'InterMolecular':
        return O.InterMolecular()
    raise KeyError(model)


CLSNAME = {'FJC': 'FreelyJointedChain', 'FJCalias': 'FreelyJointedChain', 'NFJC': 'NonOverlappingFreelyJointedChain',
           'NFJCalias': 'NonOverlappingFreelyJointedChain'}


def tags(model, kind, form=None):
    t = {'cls': CLSNAME.get(model, model), 'kind': kind}
    if form:
        t['form'] = form
    return t


def repro(model, p, k):
    ctor = {'Gaussian': 'Gaussian(sigma=%r, length=%r)' % (p.get('sigma'), p.get('N')),
            'FJC': 'FreelyJointedChain(length=%r, l=%r)' % (p.get('N'), p.get('l')),
            'FJCalias': 'FJC(length=%r, l=%r)' % (p.get('N'), p.get('l')),
            'GaussianRing': 'GaussianRing(sigma=%r, length=%r)' % (p.get('sigma'), p.get('N')),
            'NFJC': 'NonOverlappingFreelyJointedChain(length=%r, l=%r)' % (p.get('N'), p.get('l')),
            'NFJCalias': 'NFJC(length=%r, l=%r)' % (p.get('N'), p.get('l')),
            'DiscreteKoyama': 'DiscreteKoyama(sigma=%r, l=%r, length=%r, lp=%r)' % (p.get('sigma'), p.get('l'), p.get('N'), p.get('lp'))}.get(model, model + '()')
    return "import numpy as np, pyPRISM\nprint(pyPRISM.omega.%s.calculate(np.array([%r])))" % (ctor, k)


def closed_form_E(model, p, k):
    if model == 'Gaussian':
        return np.exp(-k * k * p['sigma'] ** 2 / 6.0)
    return sinc(k * p['l'])


def reference(model, p, k):
    N = p.get('N', 1)
    if model == 'Gaussian':
        return ch.gaussian(N, p['sigma'], k)
    if model in ('FJC', 'FJCalias'):
        return ch.fjc(N, p['l'], k)
    if model == 'GaussianRing':
        return ch.ring(N, p['sigma'], k)
    if model in ('NFJC', 'NFJCalias'):
        return ch.nfjc(N, p['l'], k)
    if model == 'SingleSite':
        return np.ones_like(k)
    if model in ('NoIntra', 'InterMolecular'):
        return np.zeros_like(k)
    raise KeyError(model)


def tolerance(model, p, k):
    """Allowed |omega - reference| per k, and the K3 mask (closed forms of Gaussian / FJC in the cancellation region)."""
    N = p.get('N', 1)
    base = 16 * EPS * N * N + 1e-13
    k3 = np.zeros(k.shape, dtype=bool)
    cancel = np.zeros(k.shape)
    if model in ('Gaussian', 'FJC', 'FJCalias'):
        E = closed_form_E(model, p, k)
        one = 1.0 - E
        with np.errstate(divide='ignore'):
            cancel = np.where(one > 0, 64 * EPS / one ** 2 + 8 * EPS * N / np.where(one > 0, one, 1.0), np.inf)
        k3 = one < 1e-4
        tol = np.where(k3, base, base + cancel)
        return tol, k3, cancel
    if model in ('NFJC', 'NFJCalias'):
        # the ideal part is the FreelyJointedChain closed form and inherits its cancellation (K3)
        E = sinc(k * p['l'])
        one = 1.0 - E
        with np.errstate(divide='ignore'):
            cancel = np.where(one > 0, 64 * EPS / one ** 2 + 8 * EPS * N / np.where(one > 0, one, 1.0), np.inf)
        k3 = one < 1e-4
        return np.where(k3, 2.5e-4 * N, 2.5e-4 * N + cancel), k3, cancel
    return np.full(k.shape, base), k3, cancel


def compare(rec, c, model, p, k, got, how):
    want = reference(model, p, k)
    tol, k3, cancel = tolerance(model, p, k)
    N = p.get('N', 1)
    shown = {}

    def emit(i, kind, msg):
        form = None
        if k3[i]:
            dev = abs(got[i] - want[i]) if np.isfinite(got[i]) else np.inf
            form = 'K3' if (dev <= cancel[i] or not np.isfinite(cancel[i])) else 'beyond-cancellation'
        key = (kind, form)
        shown[key] = shown.get(key, 0) + 1
        if shown[key] > 2:
            rec.count('further_mismatching_points')
            return
        rec.fail(dict(c, point={'k': float(k[i])}), msg, tags(model, kind, form), repro=repro(model, p, float(k[i])))

    for i in range(len(k)):
        g, w = float(got[i]), float(want[i])
        if not math.isfinite(g):
            emit(i, 'finite', '%s%r: omega(k=%r) = %r is not finite (%s)' % (model, p, float(k[i]), g, how))
            continue
        if abs(g - w) > tol[i]:
            emit(i, 'value', '%s%r: omega(k=%r) = %r, defining pair sum gives %r (allowed %.3g; %s)' % (model, p, float(k[i]), g, w, tol[i], how))
        if model not in ('NoIntra', 'InterMolecular') and g > N * (1 + 1e-12) + (tol[i] if not k3[i] else 0.0):
            emit(i, 'bound', '%s%r: omega(k=%r) = %r exceeds N = %d (%s)' % (model, p, float(k[i]), g, N, how))
    return want


def independence(rec, c, model, p, obj, k, got):
    """The value at one k does not depend on the other entries: singletons, a reversed sub-array."""
    idx = sorted(set([0, 1, len(k) // 3, len(k) // 2, len(k) - 2, len(k) - 1]))
    idx = [i for i in idx if 0 <= i < len(k)]
    tol, k3, cancel = tolerance(model, p, k)
    for i in idx:
        try:
            one = float(np.asarray(obj.calculate(np.array([k[i]])))[0])
        except Exception as e:
            rec.fail(dict(c, point={'k': float(k[i])}), '%s%r: calculate on the single wavenumber %r raised %s: %s' % (model, p, float(k[i]), type(e).__name__, str(e)[:80]),
                     tags(model, 'raises'), repro=repro(model, p, float(k[i])))
            return
        rec.trans()
        a = float(got[i])
        if one == a or (math.isnan(one) and math.isnan(a)):
            continue
        lim = 8 * EPS * max(abs(a), 1.0) + (cancel[i] if np.isfinite(cancel[i]) else np.inf)
        if model in ('NFJC', 'NFJCalias'):
            lim = 1e-9
        if not abs(one - a) <= lim:
            rec.fail(dict(c, point={'k': float(k[i])}), '%s%r: omega(k=%r) is %r inside the array but %r when evaluated alone' % (model, p, float(k[i]), a, one),
                     tags(model, 'independence', 'K3' if k3[i] else None), repro=repro(model, p, float(k[i])))
            return
    # the array handed out for one k grid is the caller's: evaluating another grid of the same length (reversed and
    # stretched) must not change it, and the whole reversed grid gives the reversed values
    try:
        with np.errstate(all='ignore'):
            first = obj.calculate(k.copy())
            snap = np.array(first, dtype=float, copy=True)
            k2 = (k[::-1] * 1.25).copy()
            second = obj.calculate(k2)
            rev = np.asarray(obj.calculate(k[::-1].copy()), dtype=float)
        rec.trans(3)
        if np.ndim(first) and not np.array_equal(np.asarray(first, dtype=float), snap, equal_nan=True):
            rec.fail(c, '%s%r: the array returned for one k grid changed when calculate() was called with another grid of the same length' % (model, p),
                     tags(model, 'purity'))
            return
        if np.ndim(rev) and rev.shape == got.shape:
            lim = 8 * EPS * np.maximum(np.abs(got), 1.0) + np.where(np.isfinite(cancel), cancel, np.inf)
            if model in ('NFJC', 'NFJCalias'):
                lim = np.full(got.shape, 1e-9)
            bad = ~((rev[::-1] == got) | (np.isnan(rev[::-1]) & np.isnan(got)) | (np.abs(rev[::-1] - got) <= lim))
            if np.any(bad):
                i = int(np.argmax(bad))
                rec.fail(dict(c, point={'k': float(k[i])}), '%s%r: omega(k=%r) is %r on the increasing grid but %r when the same grid is passed in decreasing order'
                         % (model, p, float(k[i]), float(got[i]), float(rev[::-1][i])), tags(model, 'independence', 'K3' if k3[i] else None))
                return
    except Exception as e:
        rec.fail(c, '%s%r: calculate on a reversed / rescaled copy of the grid raised %s: %s' % (model, p, type(e).__name__, str(e)[:80]), tags(model, 'raises'))
        return
    sub = np.array([k[i] for i in idx[::-1]])
    back = np.asarray(obj.calculate(sub), dtype=float)
    rec.trans()
    for j, i in enumerate(idx[::-1]):
        a, b = float(got[i]), float(back[j])
        lim = 8 * EPS * max(abs(a), 1.0) + (cancel[i] if np.isfinite(cancel[i]) else np.inf)
        if model in ('NFJC', 'NFJCalias'):
            lim = 1e-9
        if not (a == b or (math.isnan(a) and math.isnan(b)) or abs(a - b) <= lim):
            rec.fail(c, '%s%r: omega(k=%r) depends on the other entries of the array (%r vs %r)' % (model, p, float(k[i]), a, b),
                     tags(model, 'independence', 'K3' if k3[i] else None))
            return


def case_model(rec, c):
    model, p, ks = c['model'], c['params'], c['kset']
    k = kset(ks)
    if k is None:
        rec.count('skipped_preconditions')
        return
    if model in ('NFJC', 'NFJCalias') and len(k) > 1100:
        k = k[:1100]
    try:
        with warnings.catch_warnings():
            warnings.simplefilter('ignore')
            obj = make(model, p)
    except Exception as e:
        rec.fail(c, '%s%r: constructor raised %s: %s' % (model, p, type(e).__name__, str(e)[:100]), tags(model, 'raises'),
                 repro=repro(model, p, 1.0))
        return
    rec.state()
    k0 = k.copy()
    rec.trans()
    try:
        with np.errstate(all='ignore'):
            got = np.asarray(obj.calculate(k), dtype=float)
    except Exception as e:
        rec.fail(c, '%s%r: calculate raised %s: %s' % (model, p, type(e).__name__, str(e)[:100]), tags(model, 'raises'),
                 repro=repro(model, p, float(k[0])))
        return
    if not np.array_equal(k, k0):
        rec.fail(c, '%s: calculate modified k' % model, tags(model, 'purity'))
    if got.shape != k.shape:
        rec.fail(c, '%s: result shape %r' % (model, got.shape), tags(model, 'value'))
        return
    with np.errstate(all='ignore'):
        want = compare(rec, c, model, p, k, got, 'k set %s' % ks)
        independence(rec, c, model, p, obj, k, got)
    # limits on the decade ladder
    N = p.get('N', 1)
    if ks == 'decades' and model not in ('NoIntra', 'InterMolecular'):
        lmin = min(p.get('l', 1e9), p.get('sigma', 1e9))
        if model != 'SingleSite':
            hi = float(got[-1])
            bound = 4.0 * N / (k[-1] * lmin) if model not in ('Gaussian', 'GaussianRing') else 1e-12
            if math.isfinite(hi) and abs(hi - 1.0) > bound + 1e-12:
                rec.fail(c, '%s%r: omega(k=1e3) = %r does not tend to 1' % (model, p, hi), tags(model, 'limit'))
    frac = want / max(N, 1)
    if model in ('SingleSite', 'NoIntra', 'InterMolecular') or np.any((frac > 1e-3) & (frac < 0.999)):
        rec.outcome(core.digest([model, p, ks, np.nan_to_num(got[:50])], 7))
    rec.trace()


# the shipped linearisation of the bending energy close to lp_min is accurate to 2.2e-7 (relative, in omega);
# its root solve for larger lp to 1e-9
KOYAMA_RTOL = 5e-6
K4_MIN_STIFFNESS = 50.0


def koyama_form(p, k, dev_rel):
    """Known finding K4: for stiff chains (lp/l >= 50) the shipped closed-form moments (kernel_base: differences of
    terms ~ (lp/l)^4) lose precision; the noise delta in A^2 enters as exp(delta k^2).  A deviation is attributed to
    K4 only inside that region and only within expm1(128 eps (lp/l)^4 (k l)^2); anything else is 'other'."""
    R = p['lp'] / p['l']
    if R < K4_MIN_STIFFNESS:
        return None
    with np.errstate(all='ignore'):
        bound = np.expm1(128.0 * EPS * R ** 4 * (k * p['l']) ** 2)
    return 'K4' if (not np.isfinite(bound) or dev_rel <= bound) else 'other'


def case_koyama(rec, c):
    p, ks = c['params'], c['kset']
    k = kset(ks)
    if k is None:
        rec.count('skipped_preconditions')
        return
    model = 'DiscreteKoyama'
    try:
        obj = make(model, p)
    except Exception as e:
        rec.fail(c, 'DiscreteKoyama%r: constructor raised %s: %s' % (p, type(e).__name__, str(e)[:100]), tags(model, 'raises'), repro=repro(model, p, 1.0))
        return
    rec.state()
    N = p['N']
    rec.trans()
    k0 = k.copy()
    try:
        with np.errstate(all='ignore'):
            got = np.asarray(obj.calculate(k), dtype=float)
    except Exception as e:
        rec.fail(c, 'DiscreteKoyama%r: calculate raised %s: %s' % (p, type(e).__name__, str(e)[:100]), tags(model, 'raises'), repro=repro(model, p, float(k[0])))
        return
    if not np.array_equal(k, k0):
        rec.fail(c, 'DiscreteKoyama: calculate modified k', tags(model, 'purity'))
        k = k0.copy()
    # sum structure: (1/N) sum_ij w_|i-j|(k) with the class's own kernel
    want = np.ones_like(k)
    q = None
    # (the per-separation kernel methods are helpers of today's class, not part of the property: used when present)
    own_kernel = hasattr(obj, 'koyama_kernel_fourier') and hasattr(obj, 'kernel_base')
    for n in (range(1, N) if own_kernel else ()):
        w = np.asarray(obj.koyama_kernel_fourier(k=k, n=n), dtype=float)
        rec.trans()
        if np.any(np.abs(w) > 1 + 1e-12):
            rec.fail(c, 'DiscreteKoyama%r: |w_%d(k)| exceeds 1' % (p, n), tags(model, 'kernel'))
        w0 = float(np.asarray(obj.koyama_kernel_fourier(k=np.array([1e-6]), n=n))[0])
        if abs(w0 - 1.0) > 1e-9:
            rec.fail(c, 'DiscreteKoyama%r: w_%d(k->0) = %r, not 1' % (p, n, w0), tags(model, 'kernel'))
        want = want + (2.0 / N) * (N - n) * w
        # <r^2> against the explicit double sum over bond-bond correlations q^|i-j|, q = 1 - l/lp
        r2, r4 = obj.kernel_base(n)
        q = 1.0 - p['l'] / p['lp']
        r2ref = ch.r2_double_sum(n, p['l'], q)
        if abs(r2 - r2ref) > 1e-10 * r2ref:
            rec.fail(c, 'DiscreteKoyama%r: <r^2> for %d bonds = %r, explicit double sum gives %r' % (p, n, r2, r2ref), tags(model, 'kernel'))
    shown = 0
    for i in range(len(k)):
        g = float(got[i])
        if not math.isfinite(g):
            shown += 1
            if shown <= 2:
                rec.fail(dict(c, point={'k': float(k[i])}), 'DiscreteKoyama%r: omega(k=%r) is not finite' % (p, float(k[i])), tags(model, 'finite'), repro=repro(model, p, float(k[i])))
            continue
        if (own_kernel and abs(g - want[i]) > 1e-11 * N) or g > N * (1 + 1e-11):
            shown += 1
            if shown <= 2:
                rec.fail(dict(c, point={'k': float(k[i])}),
                         'DiscreteKoyama%r: omega(k=%r) = %r, the pair sum (1/N) sum_ij w_|i-j| over all %d sites gives %r' % (p, float(k[i]), g, N, float(want[i])),
                         tags(model, 'value'), repro=repro(model, p, float(k[i])))
    # independent oracle: docstring kernel with <r^2>, <r^4> from moment propagation of the bond-angle model
    # (own quadrature and own bending-energy solve; nothing of the class is used)
    try:
        indep = ch.koyama_omega(N, p['sigma'], p['l'], p['lp'], k)
    except Exception as e:
        raise HarnessError('reference semiflexible moments failed for %r: %s' % (p, e))
    rec.trans()
    with np.errstate(all='ignore'):
        dev = np.abs(got - indep)
        badi = np.where(np.isfinite(got) & (dev > KOYAMA_RTOL * np.abs(indep)))[0]
    if len(badi):
        i = int(badi[np.argmax(dev[badi] / np.abs(indep[badi]))])
        rec.fail(dict(c, point={'k': float(k[i])}),
                 'DiscreteKoyama%r: omega(k=%r) = %r; the pair sum with the documented kernel and <r^2>,<r^4> of the bond-angle model (independent quadrature) gives %r (relative deviation %.2e > %.0e)'
                 % (p, float(k[i]), float(got[i]), float(indep[i]), float(dev[i] / abs(indep[i])), KOYAMA_RTOL),
                 tags(model, 'moments', koyama_form(p, float(k[i]), float(dev[i] / abs(indep[i])))), repro=repro(model, p, float(k[i])))
    if ks == 'decades':
        lo = float(got[0])
        if math.isfinite(lo) and abs(lo - N) > 1e-5 * N * N:
            rec.fail(c, 'DiscreteKoyama%r: omega(k=1e-4) = %r does not tend to N = %d' % (p, lo, N), tags(model, 'limit'), repro=repro(model, p, 1e-4))
        hi = float(got[-1])
        if math.isfinite(hi) and abs(hi - 1.0) > 4.0 * N / (k[-1] * p['l']):
            rec.fail(c, 'DiscreteKoyama%r: omega(k=1e3) = %r does not tend to 1' % (p, hi), tags(model, 'limit'))
    with np.errstate(all='ignore'):
        tol_save = None
        independence(rec, c, 'DiscreteKoyama', p, obj, k, got)
    rec.outcome(core.digest(['DK', p, ks, np.nan_to_num(got[:50])], 7))
    rec.trace()


def case_koyama_lpsweep(rec, c):
    """Dense ladder of persistence lengths for one geometry: every valid lp must construct, and omega on a
    small k set must equal the independent pair sum (the window just above the linearisation threshold is
    where the shipped root solve used to stall: F11)."""
    sigma, l, N = c['sigma'], c['l'], c['N']
    lp_min = 4.0 * l ** 3 / (4.0 * l ** 2 - sigma ** 2)
    k = np.array([1e-3, 0.1, 0.7, 2.0, 5.5, 13.0, 80.0])
    model = 'DiscreteKoyama'
    shown = 0
    nshown = {}
    for f in c['factors']:
        p = {'sigma': sigma, 'l': l, 'N': N, 'lp': float(lp_min * f)}
        rec.state()
        rec.trans()
        try:
            with np.errstate(all='ignore'):
                obj = make(model, p)
                got = np.asarray(obj.calculate(k.copy()), dtype=float)
        except Exception as e:
            shown += 1
            if shown <= 2:
                # lp/l >= 500: the bending energy exceeds ~700 and math.exp overflows inside cos_avg (part of K4: stiff chains)
                form = 'K4' if (p['lp'] / l >= 500.0 and isinstance(e, ValueError) and 'bending energy' in str(e)) else None
                rec.fail(dict(c, lp_factor=f), 'DiscreteKoyama%r (lp = %.6g * lp_min, lp/l = %.4g, valid): raised %s: %s' % (p, f, p['lp'] / l, type(e).__name__, str(e)[:100]),
                         tags(model, 'raises', form), repro=repro(model, p, 1.0))
            continue
        indep = ch.koyama_omega(N, sigma, l, p['lp'], k)
        with np.errstate(all='ignore'):
            dev = np.abs(got - indep) / np.abs(indep)
        dev = np.where(np.isfinite(dev), dev, np.inf)
        for i in np.where(dev > KOYAMA_RTOL)[0]:
            form = koyama_form(p, float(k[i]), float(dev[i]))
            key = form or 'none'
            nshown[key] = nshown.get(key, 0) + 1
            if nshown[key] <= 2:
                rec.fail(dict(c, lp_factor=f), 'DiscreteKoyama%r (lp = %.6g * lp_min, lp/l = %.4g): omega(k=%r) = %r, independent pair sum %r'
                         % (p, f, p['lp'] / l, float(k[i]), float(got[i]), float(indep[i])),
                         tags(model, 'moments', form), repro=repro(model, p, float(k[i])))
            else:
                rec.count('further_koyama_sweep_mismatches_' + key)
        rec.outcome(core.digest(['DKsweep', p, got], 7))
    rec.trace()


def case_koyama_fjlimit(rec, c):
    """sigma -> 0 and lp = lp_min: bonds are uncorrelated, moments are those of the freely jointed chain."""
    N, l = c['N'], c['l']
    sigma = 1e-3
    lp_min = 4.0 * l ** 3 / (4.0 * l ** 2 - sigma ** 2)
    p = {'sigma': sigma, 'l': l, 'N': N, 'lp': lp_min * (1 + 1e-9)}
    model = 'DiscreteKoyama'
    try:
        obj = make(model, p)
    except Exception as e:
        rec.fail(c, 'DiscreteKoyama%r: constructor raised %s: %s' % (p, type(e).__name__, str(e)[:100]), tags(model, 'raises'))
        return
    rec.state()
    k = np.array(DECADES)
    rec.trans()
    try:
        with np.errstate(all='ignore'):
            got = np.asarray(obj.calculate(k), dtype=float)
    except Exception as e:
        rec.fail(c, 'DiscreteKoyama%r: calculate raised %s: %s' % (p, type(e).__name__, str(e)[:100]), tags(model, 'raises'))
        return
    want = np.ones_like(k)
    for n in range(1, N):
        r2, r4 = ch.fjc_moments(n, l)
        want = want + (2.0 / N) * (N - n) * ch.koyama_kernel(k, r2, r4)
    dev = np.abs(got - want)
    if not np.all(dev <= 1e-4 * N):
        i = int(np.nanargmax(np.where(np.isfinite(dev), dev, np.inf)))
        rec.fail(dict(c, point={'k': float(k[i])}),
                 'DiscreteKoyama in the freely-jointed limit (sigma=%g, l=%g, N=%d, lp=lp_min): omega(k=%r) = %r, Koyama form with <r^2>=n l^2, <r^4>=n l^4 (5n-2)/3 gives %r'
                 % (sigma, l, N, float(k[i]), float(got[i]), float(want[i])), tags(model, 'value'), repro=repro(model, p, float(k[i])))
    rec.outcome(core.digest(['DKlim', N, l, got], 7))
    rec.trace()


def case_invalid(rec, c):
    p = c['params']
    rec.state()
    rec.trans()
    try:
        make('DiscreteKoyama', p)
        rec.fail(c, 'DiscreteKoyama%r (overlapping neighbours) was accepted' % (p,), tags('DiscreteKoyama', 'invalid-accepted'))
    except ValueError:
        pass
    except Exception as e:
        rec.fail(c, 'DiscreteKoyama%r raised %s instead of ValueError' % (p, type(e).__name__), tags('DiscreteKoyama', 'invalid-accepted'))
    rec.outcome(core.digest(['invalid', p]))
    rec.trace()


def replay(rec, case):
    with warnings.catch_warnings():
        warnings.simplefilter('ignore')
        {'model': case_model, 'koyama': case_koyama, 'koyama_fj': case_koyama_fjlimit, 'koyama_lpsweep': case_koyama_lpsweep, 'invalid': case_invalid}[case['kind']](rec, case)


def _worker(c):
    rec = Rec('C11')
    replay(rec, c)
    return rec.to_dict()


def run(rec, tier, seed):
    quick = tier == 'quick'
    Ns = [2, 3, 10, 100] + ([] if quick else [1000, 10000])
    geo = [0.8, 1.0, 1.5]
    if seed:
        geo = geo + [round(0.6 + ((seed * 0.6180339887498949) % 1.0) * 1.2, 4)]
    ksets = ['decades', 'dk0.1x256', 'dk0.05x100', 'dr0.1x128'] + ([] if quick else ['dr0.1x1024', 'dr0.025x4096'])
    cases = []
    for N, g, ks in itertools.product(Ns, geo, ksets):
        if N >= 1000 and ks == 'dr0.025x4096' and g != 1.0:
            continue
        cases.append({'kind': 'model', 'model': 'Gaussian', 'params': {'N': N, 'sigma': g}, 'kset': ks})
        cases.append({'kind': 'model', 'model': 'FJC', 'params': {'N': N, 'l': g}, 'kset': ks})
        if N <= 1000:
            cases.append({'kind': 'model', 'model': 'GaussianRing', 'params': {'N': N, 'sigma': g}, 'kset': ks})
    # long / large rings (N sigma^2 >= 3000): the pair sum has thousands of terms between e^-50 and 1 at the low k of a Domain grid
    for N, g in [(400, 4.0), (2000, 1.5), (3000, 1.0)] + ([] if quick else [(5000, 1.0), (10000, 1.0), (10000, 0.8), (1000, 3.0)]):
        for ks in ['decades', 'dk0.05x100', 'dr0.1x128'] + ([] if quick else ['dr0.1x1024']):
            cases.append({'kind': 'model', 'model': 'GaussianRing', 'params': {'N': N, 'sigma': g}, 'kset': ks})
    cases.append({'kind': 'model', 'model': 'FJCalias', 'params': {'N': 10, 'l': 1.0}, 'kset': 'decades'})
    for m in ('SingleSite', 'NoIntra', 'InterMolecular'):
        for ks in ksets:
            cases.append({'kind': 'model', 'model': m, 'params': {}, 'kset': ks})
    nN = [2, 3, 4, 6] if quick else [2, 3, 4, 5, 6, 8, 10, 12]
    for N in nN:
        for ks in ['decades', 'dk0.1x256', 'dk0.05x100'] + (['dr0.1x600'] if N in (3, 6) else []) + ([] if quick else ['dr0.1x1024', 'dr0.1x600']):
            cases.append({'kind': 'model', 'model': 'NFJC', 'params': {'N': N, 'l': 1.0}, 'kset': ks})
    cases.append({'kind': 'model', 'model': 'NFJCalias', 'params': {'N': 4, 'l': 1.0}, 'kset': 'decades'})
    cases.append({'kind': 'model', 'model': 'NFJC', 'params': {'N': 5, 'l': 1.5}, 'kset': 'decades'})
    kN = [2, 3, 6, 10] if quick else [2, 3, 6, 10, 12, 30, 100]
    LPF = [1, 1.0001, 1.0005, 1.00099, 1.00101, 1.002, 1.005, 1.0099, 1.01, 1.0725, 1.5, 3.0, 8.0]
    for N, (sigma, l) in itertools.product(kN, [(1.0, 0.8), (1.0, 1.0), (1.0, 1.5), (0.8, 1.0), (1.3, 1.0)]):
        lp_min = 4.0 * l ** 3 / (4.0 * l ** 2 - sigma ** 2)
        lps = [lp_min * f for f in (LPF if (not quick or l == 1.0) else LPF[::2])]
        for lp in lps:
            for ks in (['decades', 'dk0.1x256'] if quick or N > 12 else ['decades', 'dk0.1x256', 'dr0.1x1024']):
                cases.append({'kind': 'koyama', 'params': {'sigma': sigma, 'l': l, 'N': N, 'lp': float(lp)}, 'kset': ks})
    cases.append({'kind': 'koyama', 'params': {'sigma': 1.0, 'l': 1.0, 'N': 100, 'lp': 1.43}, 'kset': 'decades'})      # the docstring's example
    nf = 60 if quick else 400
    sweep = ([1.0 + 0.003 * (i + 0.5) / nf for i in range(nf)] + [1.003 + 0.097 * (i + 0.5) / (nf / 2.0) for i in range(int(nf / 2))]
             + [1.1 * (250.0 / 1.1) ** (i / (nf / 2.0)) for i in range(int(nf / 2) + 1)])
    for sigma, l in ([(1.0, 0.6), (1.0, 0.8), (0.8, 1.0)] if quick else [(1.0, 0.6), (1.0, 0.8), (0.8, 1.0), (1.0, 1.0), (1.3, 1.0), (1.0, 1.5), (1.0, 2.0), (0.5, 1.0), (1.9, 1.0)]):
        for part in range(4):
            cases.append({'kind': 'koyama_lpsweep', 'sigma': sigma, 'l': l, 'N': 4, 'factors': [round(f, 9) for f in sweep[part::4]]})
    for N, l in itertools.product([2, 3, 8], [0.8, 1.0, 1.5]):
        cases.append({'kind': 'koyama_fj', 'N': N, 'l': l})
    for sg, l, lp in [(1.0, 0.5, 2.0), (1.0, 0.4, 2.0), (2.0, 1.0, 5.0), (1.0, 1.0, 1.2), (1.0, 1.0, 1.0), (1.0, 0.8, 1.0), (1.0, 1.5, 1.6)]:
        cases.append({'kind': 'invalid', 'params': {'sigma': sg, 'l': l, 'N': 10, 'lp': lp}})
    # just below the smallest persistence length that keeps neighbours apart (relative 1e-6: ten orders above the rounding of lp_min itself,
    # so an implementation that forgives rounding noise in lp is not affected)
    for sg, l in [(1.0, 1.0), (1.0, 0.8), (1.3, 1.0), (0.8, 1.5)]:
        for f in (1 - 1e-6, 1 - 1e-4, 1 - 1e-3):
            cases.append({'kind': 'invalid', 'params': {'sigma': sg, 'l': l, 'N': 10, 'lp': float(4.0 * l ** 3 / (4.0 * l ** 2 - sg ** 2) * f)}})
    core.pmap(_worker, cases, rec)
    rec.note('alphabets', {'N_closed_forms': Ns, 'geometry': geo, 'ksets': ksets, 'N_nfjc': nN, 'N_koyama': kN,
                           'koyama_lp_over_lp_min': LPF, 'koyama_sigma_l': [(1.0, 0.8), (1.0, 1.0), (1.0, 1.5), (0.8, 1.0), (1.3, 1.0)]})
    rec.sample(cases[0])
    rec.sample({'kind': 'koyama', 'params': {'sigma': 1.0, 'l': 1.0, 'N': 100, 'lp': 1.43}, 'kset': 'decades'})
    rec.sample({'kind': 'model', 'model': 'NFJC', 'params': {'N': 4, 'l': 1.0}, 'kset': 'dk0.1x256'})
