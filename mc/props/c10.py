"""C10 - potentials equal their definitions, with consistent cores, cut-offs
and sigma.  E1: potential class x parameters x grids x sigma placements (every
on-grid decimal sigma = m*dr, off-grid values) evaluated on the real classes,
and sigma defaulting / wiring for every pair of diameters through createPRISM."""
from __future__ import annotations

import itertools
import math
import warnings

import numpy as np

from mc import core, build
from mc.core import Rec, HarnessError
from mc.refmodel import basic as ref

META = {
    'rule': ('states: (potential class, parameters, grid, sigma) configurations evaluated and two-type systems wired by createPRISM; '
             'transitions: one real calculate(r) / createPRISM call with the oracle evaluated; traces: configurations fully compared; '
             'non-trivial: at least one grid point on each side of sigma (or of the cut-off); distinct = digest of (class, parameters, '
             'grid, sigma, values)'),
    'assumptions': ['documented forms: HS 0/high; HCLJ eps[(s/r)^12-2(s/r)^6] outside the core; EXP -eps*exp(-(r-s)/alpha) outside the core; '
                    'LJ 4eps[(s/r)^12-(s/r)^6] (cut, optionally shifted); WCA = LJ cut at 2^(1/6)s and shifted by eps',
                    'contact tolerance 1e-6 (the one System.check uses)'],
}

EPS = np.finfo(float).eps
CLS = {'HS': 'HardSphere', 'HCLJ': 'HardCoreLennardJones', 'EXP': 'Exponential', 'LJ': 'LennardJones', 'WCA': 'WeeksChandlerAndersen'}

PARAMS = {
    'HS': [{}, {'high_value': 50.0}],
    'HCLJ': [{'epsilon': 0.5}, {'epsilon': -0.5}, {'epsilon': 1.3, 'high_value': 1e4}],
    'EXP': [{'epsilon': 0.3, 'alpha': 0.5}, {'epsilon': -0.3, 'alpha': 0.5}, {'epsilon': 1.0, 'alpha': 1.5, 'high_value': 1e3},
            {'epsilon': 0.4, 'alpha': 0.002}, {'epsilon': -0.4, 'alpha': 0.002},
            {'epsilon': 0.3, 'alpha': 0.5, 'high_value': 10 ** 6}],            # an integer overlap value, as in the class docstring      # sigma/alpha > 710: exp() overflows deep inside the core
    'LJ': [{'epsilon': 0.2}, {'epsilon': 1.0, 'rcut': 2.5}, {'epsilon': 1.0, 'rcut': 2.5, 'shift': True},
           {'epsilon': 0.2, 'rcut': 1.7, 'shift': True}, {'epsilon': -0.4, 'rcut': 3.0, 'shift': False},
           {'epsilon': 0.35, 'rcut': 2.5, 'shift': True}, {'epsilon': -0.4, 'rcut': 2.5, 'shift': True}],
    'WCA': [{'epsilon': 0.5}, {'epsilon': 1.0}],
}
GRIDS_Q = [[128, 0.1], [128, 0.05], [96, 0.2]]
GRIDS_T = [[256, 0.1], [256, 0.05], [128, 0.2], [200, 0.025], [100, 0.125], [128, 0.25], [64, 0.3]]


def magnitude(name, p, r, sigma):
    """Scale of the terms that are added to form u(r): rounding is relative to this."""
    x = sigma / r
    e = abs(p.get('epsilon', 1.0))
    if name in ('LJ', 'WCA'):
        m = 4 * e * (x ** 12 + x ** 6) + e
        if p.get('rcut') is not None:
            xc = sigma / p['rcut']
            m = m + 4 * e * (xc ** 12 + xc ** 6)
        return m
    if name == 'HCLJ':
        return e * (x ** 12 + 2 * x ** 6)
    if name == 'EXP':
        return e * np.exp(-(r - sigma) / p['alpha']) * (1 + np.abs(r - sigma) / p['alpha'])
    return np.ones_like(r)


def tags(name, kind, form=None):
    t = {'cls': CLS[name], 'kind': kind}
    if form:
        t['form'] = form
    return t


def compare(rec, case, name, p, r, sigma, got, how):
    """Compare real values with the documented form.  Contact points that the
    shipped code puts outside the core because r_i exceeds sigma by float noise
    are tagged form=K2 (known finding), anything else is 'other'."""
    want = ref.ref_potential([name, p], r, sigma)
    mag = magnitude(name, p, r, sigma)
    amb = ref.ambiguous(r, sigma)
    nbad = 0
    for i in range(len(r)):
        a, b = float(got[i]), float(want[i])
        if a == b or abs(a - b) <= 64 * EPS * float(mag[i]):
            continue
        nbad += 1
        if nbad > 2:
            rec.count('further_mismatching_points')
            continue
        if amb[i] and name in ref.HARD_CORE_POTENTIALS:
            # what the documented outside-core form gives at this point
            outside = ref.tail_value([name, p], float(r[i]), sigma)
            form = 'K2' if (r[i] > sigma and abs(a - outside) <= 256 * EPS * (abs(outside) + float(mag[i]))) else 'other'
            rec.fail(dict(case, point={'i': i, 'r': float(r[i])}),
                     '%s: grid point r=%r coincides with sigma=%r (|r-sigma|<1e-6) but gets u=%r instead of the overlap value %r (%s)'
                     % (CLS[name], float(r[i]), sigma, a, b, how), tags(name, 'contact', form),
                     repro="import numpy as np, pyPRISM\nprint(pyPRISM.potential.%s(%s).calculate(np.array([%r])))"
                           % (CLS[name], ', '.join(['%s=%r' % kv for kv in sorted(dict(p, sigma=sigma).items())]), float(r[i])))
        else:
            rec.fail(dict(case, point={'i': i, 'r': float(r[i])}),
                     '%s%r sigma=%r at r=%r returns %r, documented form gives %r (%s)' % (CLS[name], p, sigma, float(r[i]), a, b, how),
                     tags(name, 'value'),
                     repro="import numpy as np, pyPRISM\nprint(pyPRISM.potential.%s(%s).calculate(np.array([%r])))"
                           % (CLS[name], ', '.join(['%s=%r' % kv for kv in sorted(dict(p, sigma=sigma).items())]), float(r[i])))
    return nbad


def case_eval(rec, c):
    name, p, (L, dr), sigma = c['cls'], c['params'], c['grid'], c['sigma']
    dom = build.make_domain({'length': L, 'dr': dr})
    if not build.domain_ok(dom):
        rec.count('skipped_preconditions')
        return
    r = dom.r
    r0 = r.copy()
    U = build.make_potential([name, dict(p, sigma=sigma)])
    rec.state()
    rec.trans()
    with np.errstate(all='ignore'):
        try:
            got = np.array(U.calculate(r), dtype=float)
            again = np.array(U.calculate(r), dtype=float)
        except Exception as e:
            rec.fail(c, '%s.calculate raised %s: %s' % (CLS[name], type(e).__name__, str(e)[:80]), tags(name, 'raises'))
            return
    if not np.array_equal(r, r0):
        rec.fail(c, '%s.calculate modified r' % CLS[name], tags(name, 'purity'))
    if not np.array_equal(got, again, equal_nan=True):
        rec.fail(c, '%s.calculate is not repeatable' % CLS[name], tags(name, 'purity'))
    if getattr(U, 'sigma', None) != sigma:
        rec.fail(c, '%s.sigma changed from the explicitly given %r to %r' % (CLS[name], sigma, getattr(U, 'sigma', None)), tags(name, 'sigma'))
    if got.shape != r.shape:
        rec.fail(c, 'shape %r' % (got.shape,), tags(name, 'value'))
        return
    compare(rec, c, name, p, r, sigma, got, 'array evaluation')
    # elementwise: singletons and a permuted sub-array give the same values bit for bit
    idx = sorted(set([0, 1, len(r) // 2, len(r) - 1] + [int(np.argmin(np.abs(r - sigma)))] +
                     [min(len(r) - 1, int(np.argmin(np.abs(r - sigma))) + 1)]))
    with np.errstate(all='ignore'):
        for i in idx:
            one = float(np.array(U.calculate(np.array([r[i]])))[0])
            rec.trans()
            if not (one == got[i] or (math.isnan(one) and math.isnan(got[i]))):
                rec.fail(dict(c, point=i), '%s: value at r=%r is %r in the array but %r when evaluated alone' % (CLS[name], float(r[i]), float(got[i]), one),
                         tags(name, 'elementwise'))
                break
        perm = np.array(idx[::-1])
        sub = np.array(U.calculate(r[perm]))
        if not np.array_equal(sub, got[perm], equal_nan=True):
            rec.fail(c, '%s: permuted sub-array evaluates differently' % CLS[name], tags(name, 'elementwise'))
        # a caller's own axis that starts at the origin (a plotting axis): r is still not modified and the points r > 0 keep their values
        rz = np.concatenate([[0.0], r[:8], [0.0]])
        rz0 = rz.copy()
        try:
            vz = np.array(U.calculate(rz), dtype=float)
            rec.trans()
            if not np.array_equal(rz, rz0):
                rec.fail(dict(c, axis='origin'), '%s.calculate modified the r array it was given (an axis containing r = 0): %r -> %r' % (CLS[name], rz0[[0, -1]].tolist(), rz[[0, -1]].tolist()),
                         tags(name, 'purity'))
            elif vz.shape == rz.shape and not np.array_equal(vz[1:-1], got[:8], equal_nan=True):
                rec.fail(dict(c, axis='origin'), '%s: values at r > 0 change when the array also contains r = 0' % CLS[name], tags(name, 'elementwise'))
        except Exception as e:
            rec.fail(dict(c, axis='origin'), '%s.calculate raised %s on an axis that contains r = 0' % (CLS[name], type(e).__name__), tags(name, 'raises'))
    # cut-off structure
    with np.errstate(all='ignore'):
        if name == 'LJ' and p.get('rcut') is not None:
            rc = p['rcut']
            pts = np.array([rc * (1 - 1e-9), rc, rc * (1 + 1e-9), rc + dr, 2 * rc])
            v = np.array(U.calculate(pts), dtype=float)
            rec.trans()
            if not np.all(v[2:] == 0.0):
                rec.fail(c, 'LennardJones is not exactly zero beyond r_cut: %r' % (v[2:].tolist(),), tags(name, 'cutoff'))
            xc = sigma / rc
            slope = 4 * abs(p['epsilon']) * (12 * xc ** 12 + 6 * xc ** 6) / rc      # |du/dr| at r_cut (upper bound)
            lim = 2 * slope * rc * 1e-9 + 256 * EPS * 4 * abs(p['epsilon']) * (xc ** 12 + xc ** 6)
            if p.get('shift') and not abs(v[0]) <= lim:
                rec.fail(c, 'shifted LennardJones is not continuous at r_cut: u(rc-)=%r' % float(v[0]), tags(name, 'cutoff'))
        if name == 'WCA':
            rc = sigma * 2 ** (1.0 / 6.0)
            pts = np.array([rc * (1 - 1e-9), rc * (1 + 1e-9), rc + dr, 3 * rc])
            v = np.array(U.calculate(pts), dtype=float)
            rec.trans()
            if not np.all(v[1:] == 0.0):
                rec.fail(c, 'WCA does not vanish beyond 2^(1/6) sigma: %r' % (v[1:].tolist(),), tags(name, 'cutoff'))
            lim = 2 * 4 * abs(p['epsilon']) * (12 * 0.25 + 6 * 0.5) * 1e-9 + 256 * EPS * 4 * abs(p['epsilon'])
            if not abs(v[0]) <= lim:
                rec.fail(c, 'WCA is not continuous at 2^(1/6) sigma: %r' % float(v[0]), tags(name, 'cutoff'))
            if p['epsilon'] > 0 and not np.all(got >= -64 * EPS * 4 * p['epsilon']):
                rec.fail(c, 'WCA is negative somewhere: min %r' % float(np.min(got)), tags(name, 'cutoff'))
    if r[0] < sigma < r[-1]:
        rec.outcome(core.digest([name, p, L, dr, sigma, np.nan_to_num(got[:40], posinf=9e99)]))
    rec.trace()


HIST_OPS = ['sig:0.9', 'sig:1.3', 'ev:g1', 'ev:g2']
HIST_GRIDS = {'g1': [64, 0.1], 'g2': [64, 0.07]}        # equal lengths on purpose (a scratch buffer keyed on the shape would be re-used)


def case_hist(rec, c):
    """One potential object through a history of sigma assignments (what createPRISM does for a defaulted sigma and
    what a user does with `potential.sigma = x`) and evaluations on two grids: every evaluation must be the documented
    form for the sigma that is current at that moment."""
    name, p, sigma = c['cls'], c['params'], c['start']
    U = build.make_potential([name, dict(p, sigma=sigma) if sigma is not None else dict(p)])
    rec.state()
    doms = {g: build.make_domain({'length': v[0], 'dr': v[1]}) for g, v in HIST_GRIDS.items()}
    held = []
    for n, op in enumerate(c['ops']):
        hist = dict(c, ops=c['ops'][:n + 1])
        kind, arg = op.split(':')
        if kind == 'sig':
            sigma = float(arg)
            U.sigma = sigma
            rec.trans()
            continue
        if sigma is None:
            rec.count('disabled')
            return
        r = doms[arg].r
        r0 = r.copy()
        with np.errstate(all='ignore'):
            try:
                raw = U.calculate(r)
                got = np.array(raw, dtype=float)
            except Exception as e:
                rec.fail(hist, '%s history %s: calculate raised %s: %s' % (CLS[name], c['ops'][:n + 1], type(e).__name__, str(e)[:80]), tags(name, 'raises'))
                return
        rec.trans()
        if not np.array_equal(r, r0):
            rec.fail(hist, '%s.calculate modified r' % CLS[name], tags(name, 'purity'))
            return
        if got.shape != r.shape:
            rec.fail(hist, 'shape %r' % (got.shape,), tags(name, 'value'))
            return
        if compare(rec, hist, name, p, r, sigma, got, 'after history %s on one object' % (c['ops'][:n + 1],)):
            return
        # arrays handed out earlier are the caller's: a later evaluation must not change them
        for o, snap in held:
            if not np.array_equal(np.asarray(o, dtype=float), snap, equal_nan=True):
                rec.fail(hist, '%s history %s: an array returned by an earlier calculate() call changed when calculate() was called again'
                         % (CLS[name], c['ops'][:n + 1]), tags(name, 'purity'))
                return
        held.append((raw, np.array(raw, dtype=float, copy=True)))
    rec.trace()
    rec.outcome(core.digest([name, p, c['start'], c['ops']]))


def case_multi(rec, c):
    """Every parameter set of one class as separate objects with the SAME sigma alive in one process, constructed in the
    given order and evaluated in the given order (and once more in reverse): each object answers with its own parameters."""
    name, sigma, (L, dr) = c['cls'], c['sigma'], c['grid']
    dom = build.make_domain({'length': L, 'dr': dr})
    if not build.domain_ok(dom):
        rec.count('skipped_preconditions')
        return
    r = dom.r
    plist = [PARAMS_ALL[name][i] for i in c['order']]
    objs = [build.make_potential([name, dict(p, sigma=sigma)]) for p in plist]
    rec.state()
    for rnd, seq in enumerate((range(len(objs)), reversed(range(len(objs))))):
        for i in seq:
            with np.errstate(all='ignore'):
                try:
                    got = np.array(objs[i].calculate(r), dtype=float)
                except Exception as e:
                    rec.fail(c, '%s%r: calculate raised %s' % (CLS[name], plist[i], type(e).__name__), tags(name, 'raises'))
                    return
            rec.trans()
            if compare(rec, dict(c, which=i, round=rnd), name, plist[i], r, sigma, got,
                       'object %d of %d %s objects with the same sigma alive in one process' % (i + 1, len(objs), CLS[name])):
                return
    rec.trace()
    rec.outcome(core.digest([name, sigma, c['order']]))


PARAMS_ALL = PARAMS


def case_template(rec, c):
    """The object handed to sys.potential[...] is copied by the table: changing the caller's object afterwards (any numeric
    attribute) must not change what createPRISM wires into the closure."""
    import pyPRISM
    name, p, sigma, kT = c['cls'], c['params'], c['sigma'], 1.3
    L, dr = 96, 0.1
    s_ = pyPRISM.System(['A'], kT=kT)
    s_.domain = build.make_domain({'length': L, 'dr': dr})
    if not build.domain_ok(s_.domain):
        rec.count('skipped_preconditions')
        return
    s_.density['A'] = 0.3
    s_.diameter['A'] = 1.0
    s_.closure['A', 'A'] = pyPRISM.closure.PercusYevick()
    s_.omega['A', 'A'] = pyPRISM.omega.SingleSite()
    U = build.make_potential([name, dict(p, sigma=sigma)])
    s_.potential['A', 'A'] = U
    rec.state()
    changed = []
    for attr, val in sorted(vars(U).items()):
        if isinstance(val, bool) or not isinstance(val, (int, float)):
            continue
        setattr(U, attr, val * 1.37 + 0.11)
        changed.append(attr)
    rec.trans()
    try:
        with warnings.catch_warnings():
            warnings.simplefilter('ignore')
            P = s_.createPRISM()
    except Exception as e:
        rec.fail(c, 'createPRISM raised %s after the caller changed its own potential object: %s' % (type(e).__name__, str(e)[:80]), tags(name, 'raises'))
        return
    got = np.array(P.sys.closure['A', 'A'].potential, dtype=float) * kT
    r = np.asarray(P.sys.domain.r)
    compare(rec, dict(c, changed=changed), name, p, r, sigma, got,
            'closure.potential*kT after the caller changed %s on the object it had assigned to sys.potential earlier' % ', '.join(changed))
    rec.trace()
    rec.outcome(core.digest([name, p, sigma, 'template']))


def case_wire(rec, c):
    """sigma defaulting and wiring through createPRISM for one pair of diameters."""
    name, p, (L, dr), (dA, dB), kT = c['cls'], c['params'], c['grid'], c['diam'], c['kT']
    explicit = c.get('explicit')       # explicit sigma for the A|B pair or None
    spec = {'types': ['A', 'B'], 'kT': kT, 'domain': {'length': L, 'dr': dr},
            'density': {'A': 0.1, 'B': 0.2}, 'diameter': {'A': dA, 'B': dB}, 'pairs': {}}
    for key in ('A|A', 'A|B', 'B|B'):
        pp_ = dict(p)
        if key == 'A|B' and explicit is not None:
            pp_['sigma'] = explicit
            if c.get('by_attribute'):
                pp_['sigma_by_attribute'] = True
        spec['pairs'][key] = {'closure': ['PY', False], 'potential': [name, pp_], 'omega': ['SingleSite' if key != 'A|B' else 'NoIntra', {}]}
    rec.state()
    rec.trans()
    try:
        P = build.create_prism(spec)
    except Exception as e:
        rec.fail(c, 'createPRISM raised %s: %s' % (type(e).__name__, str(e)[:80]), tags(name, 'raises'))
        return
    r = P.sys.domain.r
    if len(r) != L:
        rec.count('skipped_preconditions')
        return
    for a, b in (('A', 'A'), ('A', 'B'), ('B', 'B')):
        dsum = (spec['diameter'][a] + spec['diameter'][b]) / 2.0
        sig = explicit if (explicit is not None and (a, b) == ('A', 'B')) else dsum
        used = P.sys.potential[a, b].sigma
        if used is None or abs(used - sig) > 4 * EPS * sig:
            rec.fail(dict(c, pair=[a, b]), 'pair %s-%s: potential uses sigma=%r, expected %r (%s)' % (
                a, b, used, sig, 'explicitly given' if explicit is not None and (a, b) == ('A', 'B') else 'mean of the two diameters'), tags(name, 'sigma'))
            continue
        got = np.array(P.sys.closure[a, b].potential, dtype=float) * kT
        if got.shape != r.shape:
            rec.fail(dict(c, pair=[a, b]), 'closure potential has shape %r' % (got.shape,), tags(name, 'value'))
            continue
        compare(rec, dict(c, pair=[a, b]), name, p, r, float(used), got, 'closure[%s,%s].potential*kT after createPRISM' % (a, b))
        if got[0] != got[-1]:
            rec.outcome(core.digest([name, p, dA, dB, a, b, np.nan_to_num(got[:30], posinf=9e99)]))
    # the System's own potentials were not given a sigma by createPRISM (isolation is C16's; here only defaulting)
    rec.trace()


def replay(rec, case):
    with warnings.catch_warnings():
        warnings.simplefilter('ignore')
        {'eval': case_eval, 'wire': case_wire, 'hist': case_hist, 'multi': case_multi, 'template': case_template}[case['kind']](rec, case)


def sigmas_for(dr, count):
    out = []
    for m in range(2, count + 2):
        out.append(float(repr(round(m * dr, 10))))
    out += [1.03, 2.57]
    return out


def _worker(item):
    rec = Rec('C10')
    with warnings.catch_warnings():
        warnings.simplefilter('ignore')
        if item[0] == 'template':
            _, name, p = item
            for sg in (0.9, 1.3):
                case_template(rec, {'kind': 'template', 'cls': name, 'params': p, 'sigma': sg})
        elif item[0] == 'multi':
            _, name, n = item
            for order in itertools.permutations(range(n)) if n <= 4 else [tuple(range(n)), tuple(reversed(range(n)))] + [tuple(list(range(i, n)) + list(range(i))) for i in range(1, n)]:
                case_multi(rec, {'kind': 'multi', 'cls': name, 'sigma': 1.2, 'grid': [96, 0.1], 'order': list(order)})
        elif item[0] == 'hist':
            _, name, p, depth = item
            for start in (None, 1.1):
                for d in range(1, depth + 1):
                    for ops in itertools.product(HIST_OPS, repeat=d):
                        if not ops[-1].startswith('ev'):
                            continue
                        case_hist(rec, {'kind': 'hist', 'cls': name, 'params': p, 'start': start, 'ops': list(ops)})
        elif item[0] == 'eval':
            _, name, p, grid, nsig = item
            for s in sigmas_for(grid[1], nsig):
                if s >= grid[0] * grid[1]:
                    continue
                case_eval(rec, {'kind': 'eval', 'cls': name, 'params': p, 'grid': grid, 'sigma': s})
        else:
            _, name, p, grid, dAs, dBs, kT = item
            for dA in dAs:
                for dB in dBs:
                    case_wire(rec, {'kind': 'wire', 'cls': name, 'params': p, 'grid': grid, 'diam': [dA, dB], 'kT': kT})
            case_wire(rec, {'kind': 'wire', 'cls': name, 'params': p, 'grid': grid, 'diam': [1.0, 1.4], 'kT': kT, 'explicit': 1.5})
            case_wire(rec, {'kind': 'wire', 'cls': name, 'params': p, 'grid': grid, 'diam': [1.0, 1.4], 'kT': kT, 'explicit': 1.3, 'by_attribute': True})
            case_wire(rec, {'kind': 'wire', 'cls': name, 'params': p, 'grid': grid, 'diam': [dAs[0], dBs[-1]], 'kT': kT, 'explicit': 0.9})
            if name in ('HS', 'HCLJ', 'EXP'):       # contact distance zero (point-like / phantom pair) is an explicitly given sigma; for LJ/WCA sigma is the length scale and 0 is degenerate
                case_wire(rec, {'kind': 'wire', 'cls': name, 'params': p, 'grid': grid, 'diam': [1.0, 1.4], 'kT': kT, 'explicit': 0.0})
    return rec.to_dict()


def run(rec, tier, seed):
    grids = GRIDS_Q + GRIDS_T[3:5] if tier == 'quick' else GRIDS_T
    nsig = 40 if tier == 'quick' else 120
    params = {k: list(v) for k, v in PARAMS.items()}
    if seed:
        phi = 0.6180339887498949
        e1 = round(0.05 + ((seed * phi) % 1.0) * 1.5, 4)
        a1 = round(0.2 + ((seed * phi * 2) % 1.0) * 2.0, 4)
        params['HCLJ'].append({'epsilon': e1})
        params['EXP'].append({'epsilon': e1, 'alpha': a1})
        params['LJ'].append({'epsilon': e1, 'rcut': round(1.5 + a1, 4), 'shift': True})
        params['WCA'].append({'epsilon': e1})
    items = []
    for name in CLS:
        for p in params[name]:
            for g in grids:
                items.append(('eval', name, p, g, nsig))
    for name in CLS:
        items.append(('multi', name, len(PARAMS[name])))
        for p in params[name]:
            items.append(('hist', name, p, 3 if tier == 'quick' else 6))
            items.append(('template', name, p))
    lat = [round(0.5 + 0.1 * i, 1) for i in range(36)]
    if tier == 'quick':
        lat = lat[:16]
    lat = lat + [0.3141592653589793, 1.122462048309373, 0.7071067811865476]      # means that are not multiples of a decimal step
    for name in CLS:
        p = params[name][0] if name != 'LJ' else params['LJ'][2]
        for dA in lat:
            items.append(('wire', name, p, [128, 0.1], [dA], lat, 1.7))
    core.pmap(_worker, items, rec, chunksize=2)
    rec.note('alphabets', {'classes': list(CLS), 'params': params, 'grids': grids, 'sigmas_per_grid': 'm*dr for m=2..%d plus 1.03, 2.57' % (nsig + 1),
                           'diameter_lattice': [lat[0], lat[-1], 0.1],
                           'history_ops': HIST_OPS, 'history_grids': HIST_GRIDS, 'history_depth': 3 if tier == 'quick' else 6, 'history_start_sigma': [None, 1.1]})
    rec.sample({'kind': 'hist', 'cls': 'WCA', 'params': {'epsilon': 0.5}, 'start': 1.1, 'ops': ['ev:g1', 'sig:0.9', 'ev:g1']})
    rec.sample({'kind': 'eval', 'cls': 'HCLJ', 'params': {'epsilon': 0.5}, 'grid': [128, 0.1], 'sigma': 1.2})
    rec.sample({'kind': 'wire', 'cls': 'EXP', 'params': {'epsilon': 0.3, 'alpha': 0.5}, 'grid': [128, 0.1], 'diam': [1.0, 1.4], 'kT': 1.7})
