"""C07 - real/Fourier transforms are exact mutual inverses on every reachable
Domain.  E1: every length x spacing x constructor.  E2: BFS over dr/dk/length
setter histories (canonical state = (length, dr bits, dk bits)) plus all
histories to depth 3 without deduplication.  Oracle: differential against a
freshly constructed Domain, exact inverse / linearity identities on bases."""
from __future__ import annotations

import copy
import itertools
import math
import warnings
from collections import deque

import numpy as np

from mc import core
from mc.core import Rec, HarnessError

META = {
    'rule': ('states: distinct Domain configurations constructed (E1: (constructor,length,spacing); E2: canonical '
             '(length, dr bits, dk bits) reached by setter histories); transitions: one constructor or setter call '
             'followed by the full invariant (grid sizes, grid values, conjugate spacing, differential vs fresh Domain, '
             'round trips and linearity on basis vectors); traces: complete setter histories / MatrixArray cases; '
             'non-trivial: the invariant was evaluated on a domain with length >= 2; distinct = digest of (length, dr, dk, '
             'transform of a probe vector)'),
    'assumptions': ['scipy.fftpack.dst computes the unnormalised DST-II/III'],
}

SPACINGS = [0.01, 0.02, 0.025, 0.05, 0.075, 0.1, 0.125, 0.15, 0.2, 0.25, 0.3, 0.35, 0.5, 0.7, 1.0]
ULPS = 4
RT_TOL = 1e-10

SET_OPS = [['dr', 0.05], ['dr', 0.1], ['dr', 0.3], ['dk', 0.05], ['dk', 0.2],
           ['length', 7], ['length', 16], ['length', 17], ['length', 100],
           # values that differ from another member (or from a start value) by a few parts in 1e6: a nudge, not a no-op
           ['dr', 0.1000004], ['dk', 0.1999988], ['dr', 0.25000075]]
STARTS = [['dr', 0.1, 16], ['dk', 0.2, 16], ['dr', 0.25, 9]]


def Domain():
    import pyPRISM
    return pyPRISM.Domain


def ulp_close(a, b, n=ULPS):
    a = np.asarray(a, dtype=float)
    b = np.asarray(b, dtype=float)
    if a.shape != b.shape:
        return False
    return bool(np.all(np.abs(a - b) <= n * np.spacing(np.maximum(np.abs(a), np.abs(b)))))


def probe_vectors(L):
    """Deterministic input alphabet for a domain of length L: unit vectors
    (all of them for L <= 48, else first/middle/last), smooth, alternating,
    large-dynamic-range."""
    vs = []
    idx = range(L) if L <= 48 else sorted(set([0, 1, L // 3, L // 2, L - 2, L - 1]))
    for i in idx:
        e = np.zeros(L)
        e[i] = 1.0
        vs.append(('e%d' % i, e))
    x = np.arange(1, L + 1, dtype=float)
    vs.append(('smooth', np.exp(-x / (0.3 * L + 1.0)) * np.cos(0.7 * x)))
    vs.append(('alt', (-1.0) ** x * (1.0 + 0.01 * x)))
    vs.append(('range', 1e6 * np.exp(-x) + 1e-6 * x))
    vs.append(('ones', np.ones(L)))
    return vs


def check_domain(d, how, full=True):
    """Invariant of property C07 on one Domain.  Returns list of (kind, msg)."""
    D = Domain()
    L = d.length
    pr = []
    if not (isinstance(L, (int, np.integer)) and L >= 1):
        return [('harness', 'bad length %r' % (L,))]
    if len(d.r) != L or len(d.k) != L:
        return [('grid-length', '%s: length=%d but len(r)=%d len(k)=%d' % (how, L, len(d.r), len(d.k)))]
    i = np.arange(1, L + 1, dtype=float)
    if not ulp_close(d.r, i * d.dr):
        pr.append(('grid-values', '%s: r_i != (i+1)*dr (max rel dev %.3g)' % (how, float(np.max(np.abs(d.r / (i * d.dr) - 1))))))
    if not ulp_close(d.k, i * d.dk):
        pr.append(('grid-values', '%s: k_j != (j+1)*dk (max rel dev %.3g)' % (how, float(np.max(np.abs(d.k / (i * d.dk) - 1))))))
    prod = d.dr * d.dk * L
    if abs(prod - math.pi) > 16 * np.spacing(math.pi):
        pr.append(('stale', '%s: dr*dk*length = %.17g, not pi (conjugate spacing stale: dr=%.6g dk=%.6g length=%d)' % (how, prod, d.dr, d.dk, L)))
    if pr:
        return pr
    if hasattr(d, 'long_r'):          # the column view of r that PRISM.cost multiplies by
        lr = np.asarray(d.long_r)
        if lr.shape != (L, 1, 1) or not np.array_equal(lr[:, 0, 0], np.asarray(d.r)):
            pr.append(('stale', '%s: long_r is not the current r grid as a column (max dev %.3g)' % (
                how, float(np.max(np.abs(lr.reshape(-1)[:L] - np.asarray(d.r)))) if lr.size >= L else float('nan'))))
            return pr
    # indistinguishable from a fresh Domain with the same length and dr
    F = D(length=L, dr=d.dr)
    if len(F.r) != L or len(F.k) != L:
        return [('grid-length', '%s: fresh Domain(length=%d, dr=%r) has len(r)=%d len(k)=%d' % (how, L, d.dr, len(F.r), len(F.k)))]
    for nm in ('r', 'k'):
        if not ulp_close(getattr(d, nm), getattr(F, nm), 8):
            pr.append(('stale', '%s: %s differs from a fresh Domain(length=%d, dr=%r)' % (how, nm, L, d.dr)))
    if not ulp_close(d.dk, F.dk, 8):
        pr.append(('stale', '%s: dk=%.17g but fresh Domain(length=%d, dr=%r) has dk=%.17g' % (how, d.dk, L, d.dr, F.dk)))
    if pr:
        return pr
    # another Domain of the same length and a different spacing is constructed now and stays alive while d is used
    decoy = D(length=L, dr=d.dr * 1.37)
    decoy.to_fourier(np.ones(L))
    vs = probe_vectors(L) if full else probe_vectors(L)[-4:]
    outs = {}
    for nm, v in vs:
        v0 = v.copy()
        f = d.to_fourier(v)
        b = d.to_real(v)
        if not np.array_equal(v, v0):
            pr.append(('purity', '%s: transform modified its input (%s)' % (how, nm)))
        outs[nm] = (f, b)
        sc = max(1e-300, float(np.max(np.abs(v))))
        e1 = float(np.max(np.abs(d.to_real(f) - v))) / sc
        e2 = float(np.max(np.abs(d.to_fourier(b) - v))) / sc
        if not (e1 <= RT_TOL):
            pr.append(('roundtrip', '%s: to_real(to_fourier(%s)) off by %.3g (relative)' % (how, nm, e1)))
        if not (e2 <= RT_TOL):
            pr.append(('roundtrip', '%s: to_fourier(to_real(%s)) off by %.3g (relative)' % (how, nm, e2)))
        ff, fb = F.to_fourier(v), F.to_real(v)
        # d and F may differ by a few ulp in dk and the grids; the induced difference of a transform is
        # bounded by (ulps + log N) * eps * sum_j |coefficient_j v_j| (not by eps * |result|: the sums cancel)
        bound_f = 2.0 * float(np.sum(np.abs(2.0 * np.pi * F.r * F.dr * v))) / F.k
        bound_b = 2.0 * float(np.sum(np.abs(F.k * F.dk / (4.0 * np.pi ** 2) * v))) / F.r
        for a, c, w, bd in ((f, ff, 'to_fourier', bound_f), (b, fb, 'to_real', bound_b)):
            excess = np.abs(a - c) - 64 * np.finfo(float).eps * bd
            if float(np.max(excess)) > 0:
                pr.append(('stale', '%s: %s(%s) differs from the fresh Domain by %.3g (allowed %.3g)' % (
                    how, w, nm, float(np.max(np.abs(a - c))), float(64 * np.finfo(float).eps * np.max(bd)))))
        if pr:
            return pr
    # (i) the same numbers handed over as a float32 array give the same result as float64 input;
    # (ii) a caller re-using one buffer: transform X, scale X in place by 2, transform X again -> exactly twice
    #      the first result, and the array returned first is still what it was (results do not alias each other)
    x = np.arange(1, L + 1, dtype=float)
    v32 = (np.exp(-x / (0.3 * L + 1.0)) * np.cos(0.7 * x)).astype(np.float32)
    vint = ((np.arange(L) * 7) % 5 - 2).astype(np.int64)
    for which in (0, 1):
        fn = d.to_fourier if which == 0 else d.to_real
        nm = fn.__name__
        for label, arr in (('float32', v32),):        # documented argument type: float ndarray (any float width)
            want = fn(np.asarray(arr, dtype=np.float64))
            got = np.asarray(fn(arr))
            sc = max(1e-300, float(np.max(np.abs(want))))
            if got.shape != want.shape or float(np.max(np.abs(got - want))) > 1e-13 * sc:
                pr.append(('dtype', '%s: %s of %s input differs from the same numbers as float64 by %.3g (relative)'
                           % (how, nm, label, float(np.max(np.abs(got - want))) / sc if got.shape == want.shape else float('nan'))))
        X = np.asarray(v32, dtype=np.float64).copy()
        R1 = fn(X)
        R1_snap = np.array(R1, copy=True)
        X *= 2.0
        R2 = fn(X)
        if not np.array_equal(np.asarray(R2), 2.0 * R1_snap):
            pr.append(('buffer', '%s: %s(X) after scaling X in place by 2 is not exactly twice the first result (max dev %.3g)'
                       % (how, nm, float(np.max(np.abs(np.asarray(R2) - 2.0 * R1_snap))))))
        if not np.array_equal(np.asarray(R1), R1_snap):
            pr.append(('buffer', '%s: the array returned by the first %s call changed when %s was called again' % (how, nm, nm)))
    # a stack of functions (n, length): when it is accepted, every row is the transform of that row
    if L >= 2:
        stack = np.stack([np.asarray(v32, dtype=np.float64), np.cos(0.3 * x) / (1.0 + x)])
        for which in (0, 1):
            fn = d.to_fourier if which == 0 else d.to_real
            try:
                out2 = np.asarray(fn(stack.copy()))
            except Exception:
                continue              # refusing 2-D input is fine
            rows = np.stack([fn(stack[0].copy()), fn(stack[1].copy())])
            if out2.shape != rows.shape or float(np.max(np.abs(out2 - rows))) > 1e-12 * max(1e-300, float(np.max(np.abs(rows)))):
                pr.append(('stack', '%s: %s of a (2, length) stack is not the transform of each row' % (how, fn.__name__)))
    if pr:
        return pr
    # linearity on pairs
    names = [nm for nm, _ in vs]
    vd = dict(vs)
    pairs = list(itertools.combinations(names, 2))
    if len(pairs) > 40:
        pairs = pairs[:20] + pairs[-20:]
    for a, b in pairs:
        al, be = 2.5, -0.75
        for which in (0, 1):
            fn = d.to_fourier if which == 0 else d.to_real
            lhs = fn(al * vd[a] + be * vd[b])
            rhs = al * outs[a][which] + be * outs[b][which]
            sc = max(1e-300, float(np.max(np.abs(rhs))), float(np.max(np.abs(al * outs[a][which]))))
            if float(np.max(np.abs(lhs - rhs))) > 1e-11 * sc:
                pr.append(('linearity', '%s: %s not linear on (%s,%s)' % (how, fn.__name__, a, b)))
                return pr
    return pr


def dom_digest(d):
    L = d.length
    v = np.exp(-np.arange(1, L + 1) / 3.0)
    try:
        return core.digest([L, float(d.dr), float(d.dk), d.to_fourier(v)[:4]], 12)
    except Exception:
        return core.digest([L, float(d.dr), float(d.dk)], 12)


def build_dom(start):
    by, h, L = start
    D = Domain()
    return D(length=L, dr=h) if by == 'dr' else D(length=L, dk=h)


def apply_set(d, op):
    setattr(d, op[0], op[1])


def fail(rec, case, probs):
    for kind, msg in probs:
        rec.fail(case, msg, tags={'kind': kind, 'case': case['kind']}, repro=repro(case))


def repro(case):
    if case['kind'] == 'grid':
        return ("import pyPRISM\nd = pyPRISM.Domain(length=%d, %s=%r)\nprint(len(d.r), len(d.k), d.length)"
                % (case['length'], case['by'], case['h']))
    if case['kind'] == 'hist':
        by, h, L = case['start']
        s = "import pyPRISM, numpy as np\nd = pyPRISM.Domain(length=%d, %s=%r)\n" % (L, by, h)
        for op in case['ops']:
            s += "d.%s = %r\n" % (op[0], op[1])
        s += ("f = pyPRISM.Domain(length=d.length, dr=d.dr)\nprint(d.dr*d.dk*d.length - np.pi, len(d.r), d.dk, f.dk)\n"
              "v = np.exp(-d.r); print(abs(d.to_real(d.to_fourier(v)) - v).max())")
        return s
    return None


# --------------------------------------------------------------------------

def case_grid(rec, case):
    d = build_dom([case['by'], case['h'], case['length']])
    how = 'Domain(length=%d, %s=%r)' % (case['length'], case['by'], case['h'])
    probs = []
    if d.length != case['length']:
        probs.append(('grid-length', '%s reports length %r' % (how, d.length)))
    got = d.dr if case['by'] == 'dr' else d.dk
    if got != case['h']:
        probs.append(('grid-values', '%s reports %s=%r' % (how, case['by'], got)))
    if not probs:
        probs = check_domain(d, how, full=case['length'] <= 160)
    rec.state()
    rec.trans()
    if case['length'] >= 2:
        rec.outcome(dom_digest(d))
    if probs:
        fail(rec, case, probs)


def case_hist(rec, case, check_every=True):
    d = build_dom(case['start'])
    how0 = 'Domain(%s=%r,length=%d)' % (case['start'][0], case['start'][1], case['start'][2])
    for n, op in enumerate(case['ops']):
        apply_set(d, op)
        rec.trans()
        how = how0 + ''.join('; %s=%r' % (o[0], o[1]) for o in case['ops'][:n + 1])
        exp_len = case['start'][2]
        for o in case['ops'][:n + 1]:
            if o[0] == 'length':
                exp_len = o[1]
        probs = []
        if d.length != exp_len:
            probs.append(('grid-length', '%s: length reads %r, last assigned %r' % (how, d.length, exp_len)))
        if getattr(d, op[0]) != op[1]:
            probs.append(('grid-values', '%s: %s reads %r after assignment of %r' % (how, op[0], getattr(d, op[0]), op[1])))
        if not probs:
            probs = check_domain(d, how)
        if probs:
            fail(rec, {'kind': 'hist', 'start': case['start'], 'ops': case['ops'][:n + 1]}, probs)
            return d, False
    rec.trace()
    rec.outcome(dom_digest(d))
    return d, True


LABELS = {'rev-ints': lambda r: list(range(r))[::-1], 'shift-ints': lambda r: list(range(1, r + 1)), 'names': lambda r: ['solv', 'poly', 'ion', 'np'][:r]}


def sym_marray(rank, L, space, salt=0, labels=None):
    import pyPRISM
    if labels is None:
        M = pyPRISM.MatrixArray(length=L, rank=rank, space=space)
    else:           # type labels that are integers but not their own positions, or names in non-alphabetical order
        M = pyPRISM.MatrixArray(length=L, rank=rank, space=space, types=LABELS[labels](rank))
    x = np.arange(1, L + 1, dtype=float)
    for i in range(rank):
        for j in range(i, rank):
            v = np.exp(-x / (2.0 + i + salt)) * np.cos((0.3 + 0.2 * j) * x) + 0.1 * (i + 1) * (j + 2)
            M.data[:, i, j] = v
            M.data[:, j, i] = v
    return M


def case_marray(rec, case):
    import pyPRISM
    S = pyPRISM.Space
    rank, L = case['rank'], case['length']
    d = build_dom(case['dom'] + [L])
    if len(d.r) != L or len(d.k) != L:
        rec.count('skipped_preconditions')
        return
    probs = []
    for direction, src in (('to_fourier', S.Real), ('to_real', S.Fourier), ('to_fourier', S.NonSpatial), ('to_real', S.NonSpatial),
                           ('to_fourier', None), ('to_real', None)):
        # an array that carries no spatial flag (NonSpatial, or None as IdentityMatrixArray defaults to) is
        # transformed like any other and comes back flagged with the target space
        dst_ = S.Fourier if direction == 'to_fourier' else S.Real
        fn = d.MatrixArray_to_fourier if direction == 'to_fourier' else d.MatrixArray_to_real
        one = d.to_fourier if direction == 'to_fourier' else d.to_real
        M = sym_marray(rank, L, src, salt=case.get('salt', 0), labels=case.get('labels'))
        layout = case.get('layout', 'C')
        if layout != 'C' and rank >= 2:
            # the same numbers in an array the caller allocated differently (Fortran order / a sub-block of a larger array)
            import pyPRISM as _P
            if layout == 'F':
                dat = np.asfortranarray(M.data)
            else:
                big = np.zeros((L, rank + 1, rank + 2))
                big[:, :rank, :rank] = M.data
                dat = big[:, :rank, :rank]
            M = _P.MatrixArray(length=L, rank=rank, data=dat, space=src)
        orig = M.data.copy()
        try:
            ret = fn(M)
        except Exception as e:
            probs.append(('marray', 'MatrixArray_%s raised %s on a %s array of rank %d: %s' % (direction, type(e).__name__, getattr(src, 'name', 'None'), rank, str(e)[:80])))
            continue
        rec.trans()
        if M.space != dst_:
            probs.append(('marray', 'MatrixArray_%s of a %s array did not set the space flag to %s (rank %d)' % (direction, getattr(src, 'name', 'None'), dst_.name, rank)))
        for i in range(rank):
            for j in range(rank):
                want = one(orig[:, i, j])
                sc = max(1e-300, float(np.max(np.abs(want))))
                if float(np.max(np.abs(M.data[:, i, j] - want))) > 1e-12 * sc:
                    probs.append(('marray', 'MatrixArray_%s: pair (%d,%d) of rank %d is not the 1-D transform of that pair function' % (direction, i, j, rank)))
        if not np.array_equal(M.data, np.transpose(M.data, (0, 2, 1))):
            probs.append(('marray', 'MatrixArray_%s: result not symmetric (rank %d)' % (direction, rank)))
        # a transform that fails (array of another length) leaves flag and data alone, and the array still works afterwards
        if L >= 2 and src in (S.Real, S.Fourier):
            W = sym_marray(rank, L + 1, src)
            wsnap = W.data.copy()
            try:
                fn(W)
                probs.append(('marray', 'MatrixArray_%s accepted an array of length %d on a domain of length %d' % (direction, L + 1, L)))
            except Exception:
                if W.space != src or not np.array_equal(W.data, wsnap):
                    probs.append(('marray', 'a failed MatrixArray_%s (array of length %d, domain of length %d) changed the flag or the data of the array'
                                  % (direction, L + 1, L)))
        # refuses when already in the target space, operand untouched
        snap = M.data.copy()
        try:
            fn(M)
            probs.append(('marray', 'MatrixArray_%s accepted an array already flagged %s' % (direction, dst_.name)))
        except ValueError:
            pass
        except Exception as e:
            probs.append(('marray', 'MatrixArray_%s raised %s instead of ValueError' % (direction, type(e).__name__)))
        if not np.array_equal(M.data, snap) or M.space != dst_:
            probs.append(('marray', 'MatrixArray_%s modified the operand although it refused' % direction))
        # round trip through the MatrixArray interface
        back = d.MatrixArray_to_real if direction == 'to_fourier' else d.MatrixArray_to_fourier
        try:
            back(M)
        except Exception as e:
            probs.append(('marray', 'transforming back after MatrixArray_%s raised %s (rank %d): %s' % (direction, type(e).__name__, rank, str(e)[:80])))
            continue
        sc = float(np.max(np.abs(orig)))
        back_flag = src if src in (S.Real, S.Fourier) else (S.Real if direction == 'to_fourier' else S.Fourier)
        if float(np.max(np.abs(M.data - orig))) > RT_TOL * sc or M.space != back_flag:
            probs.append(('marray', 'MatrixArray round trip starting with %s on a %s array is not the identity / not flagged %s (rank %d)'
                          % (direction, getattr(src, 'name', 'None'), back_flag.name, rank)))
        rec.outcome(core.digest([direction, rank, L, snap[:3]], 9))
    rec.state()
    rec.trace()
    if probs:
        fail(rec, case, probs[:3])


def replay(rec, case):
    with warnings.catch_warnings(), np.errstate(all='ignore'):
        warnings.simplefilter('ignore')
        if case['kind'] == 'grid':
            case_grid(rec, case)
        elif case['kind'] == 'hist':
            case_hist(rec, case)
        elif case['kind'] == 'marray':
            case_marray(rec, case)
        else:
            raise HarnessError('unknown case kind')


# --------------------------------------------------------------------------

def _grid_worker(item):
    lo, hi, extra = item
    rec = Rec('C07')
    with warnings.catch_warnings(), np.errstate(all='ignore'):
        warnings.simplefilter('ignore')
        for L in range(lo, hi):
            for by in ('dr', 'dk'):
                for h in SPACINGS + extra:
                    case_grid(rec, {'kind': 'grid', 'length': L, 'by': by, 'h': h})
    return rec.to_dict()


def _seq_worker(item):
    start, first, depth = item
    rec = Rec('C07')
    with warnings.catch_warnings(), np.errstate(all='ignore'):
        warnings.simplefilter('ignore')
        for tail in itertools.product(SET_OPS, repeat=depth - 1):
            ops = [first] + [list(t) for t in tail]
            # only the complete sequence is a new trace; prefixes are checked along the way
            case_hist(rec, {'kind': 'hist', 'start': start, 'ops': ops})
    return rec.to_dict()


def bfs(rec, depth):
    seen = set()
    total_states = 0
    maxd = 0
    closed = True
    for start in STARTS:
        d0 = build_dom(start)
        probs = check_domain(d0, 'start %r' % (start,))
        if probs:
            fail(rec, {'kind': 'grid', 'length': start[2], 'by': start[0], 'h': start[1]}, probs)
            continue
        frontier = deque([([], d0)])
        key = lambda d: (d.length, float(d.dr).hex(), float(d.dk).hex())
        seen.add(key(d0))
        rec.state()
        while frontier:
            hist, d = frontier.popleft()
            maxd = max(maxd, len(hist))
            if len(hist) >= depth:
                closed = False
                continue
            for op in SET_OPS:
                # a shallow copy of the Domain reconfigured: the original must not notice
                before = dom_digest(d)
                sh = copy.copy(d)
                try:
                    apply_set(sh, op)
                except Exception:
                    pass
                if dom_digest(d) != before or check_domain(d, 'parent', full=False):
                    fail(rec, {'kind': 'hist', 'start': start, 'ops': hist + [op]},
                         [('copy', 'start %r; %s: after copy.copy(domain).%s = %r the ORIGINAL domain changed' % (
                             start, '; '.join('%s=%r' % (o[0], o[1]) for o in hist), op[0], op[1]))])
                    break
                e = copy.deepcopy(d)
                apply_set(e, op)
                rec.trans()
                h2 = hist + [op]
                how = 'start %r; ' % (start,) + '; '.join('%s=%r' % (o[0], o[1]) for o in h2)
                probs = []
                if getattr(e, op[0]) != op[1]:
                    probs.append(('grid-values', '%s: %s reads %r' % (how, op[0], getattr(e, op[0]))))
                if not probs:
                    probs = check_domain(e, how)
                if probs:
                    fail(rec, {'kind': 'hist', 'start': start, 'ops': h2}, probs)
                    continue
                kk = key(e)
                if kk not in seen:
                    seen.add(kk)
                    rec.state()
                    rec.outcome(dom_digest(e))
                    frontier.append((h2, e))
    rec.note('bfs', {'canonical_states': len(seen), 'max_depth': maxd, 'depth_bound': depth, 'fixpoint': closed})


def run(rec, tier, seed):
    maxlen = 512 if tier == 'quick' else 4096
    bdepth = 3 if tier == 'quick' else 4
    sdepth = 2 if tier == 'quick' else 3
    extra = []
    if seed:
        # two extra spacings from a fixed low-discrepancy sequence indexed by the seed
        phi = 0.6180339887498949
        for j in (1, 2):
            u = (seed * phi * j) % 1.0
            extra.append(round(0.01 + u * 0.99, 4))
    step = 16 if tier == 'quick' else 32
    items = [(lo, min(lo + step, maxlen + 1), extra) for lo in range(1, maxlen + 1, step)]
    core.pmap(_grid_worker, items, rec)
    bfs(rec, bdepth)
    items = [(st, op, sdepth) for st in STARTS for op in SET_OPS]
    core.pmap(_seq_worker, items, rec)
    with warnings.catch_warnings(), np.errstate(all='ignore'):
        warnings.simplefilter('ignore')
        lens = [1, 2, 3, 7, 16, 63] if tier == 'quick' else [1, 2, 3, 7, 16, 63, 64, 100, 257]
        for rank in (1, 2, 3, 4):
            for L in lens:
                for dom in (['dr', 0.1], ['dk', 0.05]):
                    case_marray(rec, {'kind': 'marray', 'rank': rank, 'length': L, 'dom': dom})
                if rank >= 2:
                    for lab in LABELS:
                        case_marray(rec, {'kind': 'marray', 'rank': rank, 'length': L, 'dom': ['dr', 0.1], 'labels': lab})
                    for layout in ('F', 'block'):
                        case_marray(rec, {'kind': 'marray', 'rank': rank, 'length': L, 'dom': ['dr', 0.1], 'layout': layout})
    rec.note('alphabets', {'lengths': [1, maxlen], 'spacings': SPACINGS + extra, 'constructors': ['dr', 'dk'],
                           'setter_ops': SET_OPS, 'starts': STARTS,
                           'matrixarray_data_layouts': ['C (allocated by the class)', 'Fortran order', 'sub-block of a larger array'],
                           'matrixarray_type_labels': ['default', 'integers in reverse order', 'integers from 1', 'names']})
    rec.note('bounds', {'bfs_depth': bdepth, 'undeduplicated_sequence_depth': sdepth})
    rec.sample({'kind': 'grid', 'length': 100, 'by': 'dr', 'h': 0.1})
    rec.sample({'kind': 'hist', 'start': ['dr', 0.1, 16], 'ops': [['length', 100], ['dk', 0.2]]})
    rec.sample({'kind': 'marray', 'rank': 3, 'length': 16, 'dom': ['dr', 0.1]})
