"""C15 - Density and Diameter keep derived quantities consistent under any
assignment history.  E2: BFS over assignment histories of the real objects
(state = reference dict + digest of the real object's derived tables, so a
stale derived entry makes a new state instead of being merged away) to
fixpoint, plus all histories to a depth without deduplication."""
from __future__ import annotations

import copy
import itertools
import math
import warnings
from collections import deque

import numpy as np

from mc import core
from mc.core import Rec, HarnessError

META = {
    'rule': ('states: distinct (reference dict, digest of the real derived tables) pairs reached by BFS; transitions: one real '
             'assignment on a deepcopy of the parent object followed by the closed-form invariant on every assigned pair; traces: '
             'complete assignment sequences enumerated without deduplication; non-trivial: at least two types assigned (so pair '
             'quantities exist); distinct = digest of the reference dict'),
    'assumptions': [],
}

# 0.3500014 is 4 parts in 1e6 away from 0.35 (a nudge is an assignment, not a no-op); 0.3141592653589793 and 1.122462048309373
# have means that are not multiples of any decimal step; 1e-9 / 5e-9: a trace component (the property quantifies over positive values,
# so zero is not in the alphabet)
VALUES = [0.1, 0.35, 2, 0.8, 0.3500014, 0.3141592653589793, 1.122462048309373, 1e-9, 5e-9, 1]      # 2 and 1 are Python ints on purpose (`rho['solvent'] = 1`): an integer is a positive value
NSEQ_VALUES = 4                 # the sequences without deduplication use the first 3 (quick) / 4 (thorough) values; the BFS all of them (first 5 for four types in quick)
ALLTYPES = ['A', 'B', 'C', 'D']
# further label sets (explored by the BFS only): integers that are not their own positions, names contained in one another
LABELSETS = {'ints': [1, 0, 3, 2], 'nested-names': ['C', 'CH2', 'PS', 'PS-b-P2VP']}


def pp():
    import pyPRISM
    return pyPRISM


def ops_for(types, extra=(), nvalues=None):
    ops = []
    for t in types:
        for v in VALUES[:nvalues] + list(extra):
            ops.append([t, v])
    for r in range(2, len(types) + 1):
        for c in itertools.combinations(types, r):
            ops.append([list(c), 0.35])
    if len(types) >= 2:
        ops.append([list(reversed(types)), 0.8])        # list key in reverse type order
        ops.append([['ITER'] + list(types[:2]), 0.1])   # the same kind of key handed over as a one-shot iterator
    return ops


def relclose(a, b, n=8):
    return abs(a - b) <= n * np.finfo(float).eps * max(abs(a), abs(b), 1e-300)


def scalar(x):
    a = np.asarray(x, dtype=float).ravel()
    if a.size != 1:
        raise ValueError('expected one value, got shape %r' % (np.shape(x),))
    return float(a[0])


def build(kind, types):
    P = pp()
    return (P.Density if kind == 'Density' else P.Diameter)(list(types))


def step(obj, model, types, op):
    model = dict(model)
    key, v = op
    if isinstance(key, list) and key and key[0] == 'ITER':
        key = key[1:]
        obj[iter(list(key))] = v
    elif isinstance(key, str) and len(key) > 1:
        obj[''.join(list(key))] = v          # an equal but distinct string object (a label built at run time)
    else:
        obj[key] = v
    for t in (key if isinstance(key, list) else [key]):
        model[t] = v
    return model


def invariant(kind, obj, model, types):
    pr = []
    assigned = [t for t in types if model[t] is not None]
    for t in types:
        got = obj[t]
        if model[t] is None:
            if got is not None:
                pr.append(('value', '%s[%s] reads %r before any assignment' % (kind, t, got)))
        elif got != model[t]:
            pr.append(('value', '%s[%s] reads %r, last assigned %r' % (kind, t, got, model[t])))
    anyunset = len(assigned) < len(types)
    try:
        obj.check()
        raised = False
    except ValueError:
        raised = True
    except Exception as e:
        pr.append(('check', 'check() raised %s' % type(e).__name__))
        raised = anyunset
    if raised != anyunset:
        pr.append(('check', '%s.check() %s although %s' % (kind, 'raised' if raised else 'did not raise',
                                                          'some type is unassigned' if anyunset else 'all types are assigned')))
    if kind == 'Density':
        tot = math.fsum(model[t] for t in assigned)
        if not relclose(float(obj.total), tot, 8 * max(1, len(types))):
            pr.append(('total', 'total = %r, sum of assigned densities = %r' % (obj.total, tot)))
        for a in assigned:
            for b in assigned:
                try:
                    p = scalar(obj.pair[a, b])
                    s = scalar(obj.site[a, b])
                except Exception as e:
                    pr.append(('pair', 'reading pair/site density (%s,%s) failed: %s' % (a, b, e)))
                    continue
                if not relclose(p, model[a] * model[b]):
                    pr.append(('pair', 'pair density (%s,%s) = %r, rho_a*rho_b = %r' % (a, b, p, model[a] * model[b])))
                ws = model[a] if a == b else model[a] + model[b]
                if not relclose(s, ws):
                    pr.append(('site', 'site density (%s,%s) = %r, expected %r' % (a, b, s, ws)))
    else:
        for a in assigned:
            vol = math.pi * model[a] ** 3 / 6.0
            gv = obj.volume[a]
            if gv is None or not relclose(float(gv), vol):
                pr.append(('volume', 'volume[%s] = %r, pi d^3/6 = %r' % (a, gv, vol)))
            for b in assigned:
                want = (model[a] + model[b]) / 2.0
                for how, got in (('sigma[a,b]', obj.sigma[a, b]), ('diameter[a,b]', obj[a, b])):
                    if got is None or not relclose(float(got), want):
                        pr.append(('sigma', '%s for (%s,%s) = %r, (d_a+d_b)/2 = %r' % (how, a, b, got, want)))
    return pr


def real_digest(kind, obj, types):
    if kind == 'Density':
        return core.digest([obj.pair.data, obj.site.data, float(obj.total)], 12)
    vals = []
    for a in types:
        vals.append(-1.0 if obj.volume[a] is None else float(obj.volume[a]))
        for b in types:
            s = obj.sigma[a, b]
            vals.append(-1.0 if s is None else float(s))
    return core.digest(np.array(vals), 12)


def canon(model, types):
    return tuple(model[t] for t in types)


def report(rec, kind, types, hist, probs):
    for k, msg in probs[:2]:
        case = {'kind': kind, 'types': types, 'ops': hist}
        s = "import pyPRISM\nx = pyPRISM.%s(%r)\n" % (kind, types) + ''.join('x[%s] = %r\n' % (('iter(%r)' % (o[0][1:],)) if (isinstance(o[0], list) and o[0] and o[0][0] == 'ITER') else repr(o[0]), o[1]) for o in hist)
        rec.fail(case, '%s%s after %s: %s' % (kind, types, hist, msg), tags={'kind': k, 'class': kind}, repro=s)


def bfs(rec, kind, types, extra, max_states=20000, nvalues=None):
    ops = ops_for(types, extra, nvalues)
    obj = build(kind, types)
    model = {t: None for t in types}
    probs = invariant(kind, obj, model, types)
    if probs:
        report(rec, kind, types, [], probs)
        return True
    seen = {(canon(model, types), real_digest(kind, obj, types))}
    rec.state()
    frontier = deque([([], obj, model)])
    maxd = 0
    capped = False
    while frontier:
        h, obj, model = frontier.popleft()
        maxd = max(maxd, len(h))
        for op in ops:
            o2 = copy.deepcopy(obj)
            try:
                m2 = step(o2, model, types, op)
                probs = invariant(kind, o2, m2, types)
            except Exception as e:
                m2 = None
                probs = [('raises', 'assignment %r raised %s: %s' % (op, type(e).__name__, str(e)[:80]))]
            rec.trans()
            h2 = h + [op]
            if probs:
                report(rec, kind, types, h2, probs)
                continue
            k = (canon(m2, types), real_digest(kind, o2, types))
            if k not in seen:
                if len(seen) >= max_states:
                    capped = True
                    continue
                seen.add(k)
                rec.state()
                if sum(v is not None for v in m2.values()) >= 2:
                    rec.outcome(core.digest(repr((kind, types, canon(m2, types)))))
                frontier.append((h2, o2, m2))
    rec.note('bfs_%s_%d_%s' % (kind, len(types), types[0]), {'states': len(seen), 'max_depth': maxd, 'fixpoint': not capped,
                                                 'model_states': len(set(k[0] for k in seen))})
    return not capped


def seqs(rec, kind, types, first, depth, extra, nvalues=NSEQ_VALUES):
    ops = ops_for(types, extra, nvalues)
    obj0 = build(kind, types)
    model0 = step(obj0, {t: None for t in types}, types, first)

    def dfs(obj, model, h):
        if len(h) >= depth:
            return
        for op in ops:
            o2 = copy.deepcopy(obj)
            try:
                m2 = step(o2, model, types, op)
                probs = invariant(kind, o2, m2, types)
            except Exception as e:
                probs = [('raises', 'assignment %r raised %s' % (op, type(e).__name__))]
                m2 = None
            rec.trans()
            h2 = h + [op]
            if probs:
                report(rec, kind, types, h2, probs)
                continue
            rec.trace()
            dfs(o2, m2, h2)

    rec.trans()
    probs = invariant(kind, obj0, model0, types)
    if probs:
        report(rec, kind, types, [first], probs)
        return
    rec.trace()
    dfs(obj0, model0, [first])


def two_objects(rec, kind, types, depth, only=None):
    """Two live objects whose type lists hold the same names in different order (X: types, Y: rotated): all interleaved
    assignment histories up to `depth`; after every step both objects satisfy the invariant for their own history."""
    tX, tY = list(types), list(types[1:]) + list(types[:1])
    ops = [[w, t, v] for w in ('X', 'Y') for t in types for v in (0.1, 0.8)]

    def run_hist(hist):
        X, Y = build(kind, tX), None                 # Y is constructed at its first use, i.e. while X already has a history
        mX, mY = {t: None for t in tX}, {t: None for t in tY}
        for n, (w, t, v) in enumerate(hist):
            try:
                if w == 'X':
                    mX = step(X, mX, tX, [t, v])
                else:
                    if Y is None:
                        Y = build(kind, tY)
                    mY = step(Y, mY, tY, [t, v])
                probs = [(k, 'object X%s: %s' % (tX, m)) for k, m in invariant(kind, X, mX, tX)]
                if Y is not None:
                    probs += [(k, 'object Y%s (constructed later): %s' % (tY, m)) for k, m in invariant(kind, Y, mY, tY)]
            except Exception as e:
                probs = [('raises', 'assignment %r raised %s: %s' % ((w, t, v), type(e).__name__, str(e)[:80]))]
            rec.trans()
            if probs:
                for k, msg in probs[:2]:
                    rec.fail({'kind': kind, 'two': True, 'types': types, 'ops': hist[:n + 1]},
                             'two live %s objects, interleaved history %s: %s' % (kind, hist[:n + 1], msg), tags={'kind': k, 'class': kind, 'two': True})
                return False
        return True

    if only is not None:
        run_hist(only)
        return
    rec.state()
    bad_prefixes = set()
    for d in range(1, depth + 1):
        for hist in itertools.product(range(len(ops)), repeat=d):
            if any(hist[:j] in bad_prefixes for j in range(1, d)):
                continue
            if run_hist([ops[i] for i in hist]):
                if d == depth:
                    rec.trace()
            else:
                bad_prefixes.add(hist)
    rec.outcome(core.digest(repr(('two', kind, types, depth))))


def replay(rec, case):
    if case.get('two'):
        with warnings.catch_warnings():
            warnings.simplefilter('ignore')
            two_objects(rec, case['kind'], list(case['types']), len(case['ops']), only=[list(o) for o in case['ops']])
        return
    with warnings.catch_warnings():
        warnings.simplefilter('ignore')
        kind, types = case['kind'], list(case['types'])
        obj = build(kind, types)
        model = {t: None for t in types}
        rec.state()
        h = []
        for op in case['ops']:
            h.append(op)
            try:
                model = step(obj, model, types, op)
                probs = invariant(kind, obj, model, types)
            except Exception as e:
                probs = [('raises', 'assignment %r raised %s: %s' % (op, type(e).__name__, str(e)[:80]))]
            rec.trans()
            if probs:
                report(rec, kind, types, h, probs)
                return
        rec.trace()
        rec.outcome(core.digest(repr((kind, types, canon(model, types)))))


def _worker(item):
    rec = Rec('C15')
    with warnings.catch_warnings():
        warnings.simplefilter('ignore')
        if item[0] == 'two':
            _, kind, types, depth = item
            two_objects(rec, kind, types, depth)
        elif item[0] == 'bfs':
            _, kind, types, extra, nv = item
            bfs(rec, kind, types, extra, nvalues=nv)
        else:
            _, kind, types, first, depth, extra, nv = item
            seqs(rec, kind, types, first, depth, extra, nv)
    return rec.to_dict()


def run(rec, tier, seed):
    extra = []
    if seed:
        phi = 0.6180339887498949
        extra = [round(0.05 + ((seed * phi * j) % 1.0) * 1.4, 4) for j in (1, 2)]
    sdepth = {'quick': {1: 4, 2: 4, 3: 3, 4: 3}, 'thorough': {1: 7, 2: 6, 3: 5, 4: 5}}[tier]
    items = []
    for kind in ('Density', 'Diameter'):
        for n in (1, 2, 3, 4):
            types = ALLTYPES[:n]
            items.append(('bfs', kind, types, extra, 6 if (n == 4 and tier == 'quick') else None))
            nsv = 3 if tier == 'quick' else NSEQ_VALUES
            for op in ops_for(types, extra, nsv):
                items.append(('seq', kind, types, op, sdepth[n], extra, nsv))
        for n, d in ((2, 4 if tier == 'quick' else 6), (3, 3 if tier == 'quick' else 4)):
            items.append(('two', kind, ALLTYPES[:n], d))
        for lname, labels in LABELSETS.items():
            for n in ((2, 3) if tier == 'quick' else (2, 3, 4)):
                items.append(('bfs', kind, labels[:n], extra, 5))
    core.pmap(_worker, items, rec, chunksize=1)
    fix = all(v.get('fixpoint', True) for k, v in rec.notes.items() if k.startswith('bfs_'))
    rec.note('fixpoint', fix)
    rec.note('alphabets', {'values': VALUES + extra, 'ops_by_n': {n: len(ops_for(ALLTYPES[:n], extra)) for n in (1, 2, 3, 4)}})
    rec.note('bounds', {'undeduplicated_sequence_depth_by_n': sdepth, 'bfs': 'to fixpoint', 'values_in_sequences': VALUES[:NSEQ_VALUES],
                        'two_object_interleavings': 'n=2 depth %d, n=3 depth %d' % ((4, 3) if tier == 'quick' else (6, 4))})
    rec.sample({'kind': 'Density', 'types': ['A', 'B', 'C'], 'ops': [['A', 0.1], [['B', 'C'], 0.35], ['A', 0.8]]})
    rec.sample({'kind': 'Diameter', 'types': ['A', 'B'], 'ops': [[['B', 'A'], 0.8], ['B', 0.1]]})
