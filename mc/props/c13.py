"""C13 - MatrixArray arithmetic matches per-matrix linear algebra without
aliasing.  E1: complete operator matrix.  E2: all sequences of <= 3 in-place
operations on one array against a plain numpy reference."""
from __future__ import annotations

import itertools
import warnings

import numpy as np

from mc import core
from mc.core import Rec, HarnessError

META = {
    'rule': ('states: distinct (rank,length,left flag,right flag,operand kind) operand configurations built; transitions: one '
             'real operator / method call with the per-matrix reference, aliasing and operand-snapshot oracle evaluated; '
             'traces: complete cases (E1) and complete in-place sequences (E2); non-trivial: the call returned or produced '
             'data that was compared with the reference; distinct = digest of (case, resulting data)'),
    'assumptions': ['numpy elementwise arithmetic and np.linalg.inv on a single matrix are the reference semantics'],
}

BINOPS = ['+', '-', '*', '/']
OPERAND_KINDS = ['scalar', 'zerod', 'col', 'full', 'row', 'mat', 'MA', 'MA1']      # 'row': shape (rank,), 'mat': shape (rank, rank) - numpy broadcasts both against every matrix
FLAGS = ['Real', 'Fourier', 'NonSpatial']


def pp():
    import pyPRISM
    return pyPRISM


def gen(rank, L, salt):
    l = np.arange(L).reshape(L, 1, 1)
    i = np.arange(rank).reshape(1, rank, 1)
    j = np.arange(rank).reshape(1, 1, rank)
    d = 1.0 + 0.3 * np.sin(1.7 * l + 2.3 * i + 3.1 * j + salt) + (rank + 1.0) * (i == j)
    return np.ascontiguousarray(d)


def mk(rank, L, flag, salt):
    P = pp()
    return P.MatrixArray(length=L, rank=rank, data=gen(rank, L, salt), space=getattr(P.Space, flag))


def operand(kind, rank, L, flag):
    """Returns (python operand, numpy view used by the reference as (L or 1, r, r) broadcastable)."""
    if kind == 'scalar':
        return 1.75, np.float64(1.75)
    if kind == 'zerod':
        a = np.array(1.75)
        return a, a
    if kind == 'col':
        a = (1.5 + 0.1 * np.arange(L)).reshape(L, 1, 1)
        return a, a
    if kind == 'full':
        a = gen(rank, L, 0.9)
        return a, a
    if kind == 'row':
        a = 1.25 + 0.5 * np.arange(rank, dtype=float)
        return a, a
    if kind == 'mat':
        a = gen(rank, 1, 0.7)[0].copy()
        return a, a
    if kind == 'MA':
        m = mk(rank, L, flag, 0.9)
        return m, m.data
    if kind == 'MA1':
        m = mk(rank, 1, flag, 0.9)
        return m, m.data
    raise KeyError(kind)


def ref_binop(A, B, op):
    """matrix by matrix"""
    L = A.shape[0]
    out = np.empty_like(A)
    for l in range(L):
        a = A[l]
        if isinstance(B, np.ndarray) and B.ndim == 3:
            b = B[l if B.shape[0] > 1 else 0]
        else:
            b = B
        if op == '+':
            out[l] = a + b
        elif op == '-':
            out[l] = a - b
        elif op == '*':
            out[l] = a * b
        elif op == '/':
            out[l] = a / b
    return out


def do_binop(A, b, op, inplace):
    if not inplace:
        return {'+': lambda: A + b, '-': lambda: A - b, '*': lambda: A * b, '/': lambda: A / b}[op]()
    if op == '+':
        A += b
    elif op == '-':
        A -= b
    elif op == '*':
        A *= b
    elif op == '/':
        A /= b
    return A


def compatible(f1, f2):
    return f1 == f2 or 'NonSpatial' in (f1, f2)


def tags(kind, **kw):
    t = {'kind': kind}
    t.update(kw)
    return t


def case_binop(rec, c):
    P = pp()
    rank, L, op, kind, inplace, f1, f2 = c['rank'], c['length'], c['op'], c['operand'], c['inplace'], c['f1'], c['f2']
    A = mk(rank, L, f1, 0.1)
    A0 = A.data.copy()
    b, bview = operand(kind, rank, L, f2)
    b0 = np.array(bview, copy=True)
    isMA = kind in ('MA', 'MA1')
    rec.state()
    rec.trans()
    try:
        R = do_binop(A, b, op, inplace)
        raised = None
    except Exception as e:
        raised = e
    if isMA and not compatible(f1, f2):
        if raised is None:
            rec.fail(c, 'MatrixArray %s %s between %s and %s arrays was not refused' % (op, 'in-place' if inplace else '', f1, f2),
                     tags('space', op=op))
        elif not np.array_equal(A.data, A0) or not np.array_equal(bview, b0):
            rec.fail(c, 'refused %s/%s operation modified an operand' % (f1, f2), tags('space', op=op))
        rec.outcome(core.digest(['refused', rank, L, op, kind, f1, f2]))
        return
    if raised is not None:
        rec.fail(c, '%s raised %s: %s' % (c, type(raised).__name__, str(raised)[:100]), tags('raises', op=op))
        return
    want = ref_binop(A0, b0 if isinstance(b0, np.ndarray) and b0.ndim == 3 else bview, op)
    if not isinstance(R, P.MatrixArray):
        rec.fail(c, 'result is %s, not a MatrixArray' % type(R).__name__, tags('type', op=op))
        return
    if R.data.shape != want.shape or not np.array_equal(R.data, want):
        rec.fail(c, 'MatrixArray %s %s (%s) differs from the matrix-by-matrix result' % (op, kind, 'in-place' if inplace else 'out-of-place'),
                 tags('value', op=op, operand=kind, inplace=inplace))
    if inplace:
        if R is not A:
            rec.fail(c, 'in-place %s did not return the left operand' % op, tags('alias', op=op))
    else:
        if not np.array_equal(A.data, A0):
            rec.fail(c, 'out-of-place %s modified the left operand' % op, tags('alias', op=op))
        if np.shares_memory(R.data, A.data) or (isinstance(bview, np.ndarray) and np.shares_memory(R.data, bview)):
            rec.fail(c, 'result of out-of-place %s shares memory with an operand' % op, tags('alias', op=op))
    if isinstance(bview, np.ndarray) and not np.array_equal(bview, b0):
        rec.fail(c, '%s modified the right operand' % op, tags('alias', op=op))
    if A.space != getattr(P.Space, f1) or (isMA and b.space != getattr(P.Space, f2)):
        rec.fail(c, '%s changed the space flag of an operand' % op, tags('space', op=op))
    if f1 != 'NonSpatial' and R.space != getattr(P.Space, f1):
        rec.fail(c, 'result of %s on a %s array is flagged %s' % (op, f1, R.space), tags('space', op=op))
    rec.trace()
    rec.outcome(core.digest([rank, L, op, kind, inplace, R.data.ravel()[:6]]))


def ref_dot(A, B):
    out = np.empty_like(A)
    for l in range(A.shape[0]):
        out[l] = np.dot(A[l], B[l])
    return out


def case_dot(rec, c):
    P = pp()
    rank, L, how, f1, f2 = c['rank'], c['length'], c['how'], c['f1'], c['f2']
    A = mk(rank, L, f1, 0.1)
    B = mk(rank, L, f2, 0.9)
    A0, B0 = A.data.copy(), B.data.copy()
    rec.state()
    rec.trans()
    try:
        if how == 'dot':
            R = A.dot(B)
        elif how == 'dot_inplace':
            R = A.dot(B, inplace=True)
        elif how == 'matmul':
            R = A @ B
        elif how == 'imatmul':
            R = A
            R @= B
        raised = None
    except Exception as e:
        raised = e
    inplace = how in ('dot_inplace', 'imatmul')
    if not compatible(f1, f2):
        if raised is None:
            rec.fail(c, '%s between %s and %s arrays was not refused' % (how, f1, f2), tags('space', op=how))
        elif not np.array_equal(A.data, A0) or not np.array_equal(B.data, B0):
            rec.fail(c, 'refused %s modified an operand' % how, tags('space', op=how))
        rec.outcome(core.digest(['refused', rank, L, how, f1, f2]))
        return
    if raised is not None:
        rec.fail(c, '%s raised %s: %s' % (how, type(raised).__name__, str(raised)[:100]), tags('raises', op=how))
        return
    want = ref_dot(A0, B0)
    sc = float(np.max(np.abs(want)))
    if R.data.shape != want.shape or float(np.max(np.abs(R.data - want))) > 64 * np.finfo(float).eps * rank * sc:
        rec.fail(c, '%s differs from the matrix-by-matrix product (rank %d, length %d)' % (how, rank, L), tags('value', op=how))
    if inplace:
        if R is not A:
            rec.fail(c, 'in-place %s did not return/update the left operand' % how, tags('alias', op=how))
    else:
        if not np.array_equal(A.data, A0):
            rec.fail(c, 'out-of-place %s modified the left operand' % how, tags('alias', op=how))
        if np.shares_memory(R.data, A.data) or np.shares_memory(R.data, B.data):
            rec.fail(c, 'result of %s shares memory with an operand' % how, tags('alias', op=how))
    if not np.array_equal(B.data, B0):
        rec.fail(c, '%s modified the right operand' % how, tags('alias', op=how))
    if f1 != 'NonSpatial' and R.space != getattr(P.Space, f1):
        rec.fail(c, 'result of %s on a %s array is flagged %s' % (how, f1, R.space), tags('space', op=how))
    rec.trace()
    rec.outcome(core.digest([rank, L, how, R.data.ravel()[:6]]))


def case_invert(rec, c):
    P = pp()
    rank, L, inplace, f1 = c['rank'], c['length'], c['inplace'], c['f1']
    A = mk(rank, L, f1, 0.1 + c.get('salt', 0))
    if c.get('shape') == 'nearsym':
        # symmetric up to a few parts in 1e6 (e.g. a symmetric matrix after a round trip with rounding, or slightly
        # different (a,b)/(b,a) data): still an ordinary matrix whose inverse is the ordinary inverse
        sym = 0.5 * (A.data + np.transpose(A.data, (0, 2, 1)))
        noise = np.sin(1.3 * np.arange(sym.size)).reshape(sym.shape)
        A.data = sym * (1.0 + 4e-6 * noise)
    elif c.get('shape') == 'sym':
        A.data = 0.5 * (A.data + np.transpose(A.data, (0, 2, 1)))
    A0 = A.data.copy()
    rec.state()
    rec.trans()
    try:
        R = A.invert(inplace=inplace)
    except Exception as e:
        rec.fail(c, 'invert raised %s' % type(e).__name__, tags('raises', op='invert'))
        return
    want = np.empty_like(A0)
    cond = 1.0
    for l in range(L):
        want[l] = np.linalg.inv(A0[l])
        cond = max(cond, float(np.linalg.cond(A0[l])))
    tol = 64 * np.finfo(float).eps * cond * rank
    if float(np.max(np.abs(R.data - want))) > tol * float(np.max(np.abs(want))):
        rec.fail(c, 'invert differs from the matrix-by-matrix inverse', tags('value', op='invert'))
    if inplace:
        if R is not A:
            rec.fail(c, 'invert(inplace=True) did not return the array itself', tags('alias', op='invert'))
        orig = P.MatrixArray(length=L, rank=rank, data=A0.copy(), space=A.space)
    else:
        if not np.array_equal(A.data, A0):
            rec.fail(c, 'invert(inplace=False) modified its operand', tags('alias', op='invert'))
        if np.shares_memory(R.data, A.data):
            rec.fail(c, 'invert(inplace=False) shares memory with its operand', tags('alias', op='invert'))
        orig = A
    I = orig.dot(R)
    eye = np.broadcast_to(np.eye(rank), (L, rank, rank))
    if float(np.max(np.abs(I.data - eye))) > tol * 4:
        rec.fail(c, 'A.dot(A.invert()) is not the identity (max dev %.3g)' % float(np.max(np.abs(I.data - eye))), tags('value', op='invert'))
    if R.space != getattr(P.Space, f1):
        rec.fail(c, 'invert changed the space flag', tags('space', op='invert'))
    rec.trace()
    rec.outcome(core.digest([rank, L, 'inv', inplace, R.data.ravel()[:6]]))


def case_copy_keys(rec, c):
    P = pp()
    rank, L = c['rank'], c['length']
    types = ['t%d' % i for i in range(rank)]
    A = P.MatrixArray(length=L, rank=rank, data=gen(rank, L, 0.4), space=P.Space.Fourier, types=types)
    A0 = A.data.copy()
    rec.state()
    C = A.get_copy()
    rec.trans()
    if not np.array_equal(C.data, A0) or C.space != A.space or list(C.types) != types or C.rank != rank or C.length != L:
        rec.fail(c, 'get_copy does not reproduce data/space/types', tags('value', op='get_copy'))
    if np.shares_memory(C.data, A.data):
        rec.fail(c, 'get_copy shares memory with the original', tags('alias', op='get_copy'))
    C.data[...] = -5.0
    C['t0', types[-1]] = np.full(L, 9.0)
    if not np.array_equal(A.data, A0):
        rec.fail(c, 'mutating a get_copy changed the original', tags('alias', op='get_copy'))
    # type-keyed access for every ordered pair
    for a, b in itertools.product(range(rank), repeat=2):
        M = P.MatrixArray(length=L, rank=rank, data=gen(rank, L, 0.4), types=types)
        before = M.data.copy()
        v = np.arange(L, dtype=float) + 100.0 * a + 10.0 * b + 0.5
        v0 = v.copy()
        M[types[a], types[b]] = v
        rec.trans()
        exp = before.copy()
        exp[:, a, b] = v
        exp[:, b, a] = v
        if not np.array_equal(M.data, exp):
            rec.fail(c, 'assigning pair (%s,%s) did not write exactly (a,b) and (b,a)' % (types[a], types[b]), tags('value', op='setitem'))
        if not np.array_equal(M[types[a], types[b]], v) or not np.array_equal(M[types[b], types[a]], v):
            rec.fail(c, 'reading pair (%s,%s) / (%s,%s) does not return the assigned values' % (types[a], types[b], types[b], types[a]), tags('value', op='getitem'))
        if not np.array_equal(v, v0):
            rec.fail(c, 'assignment modified the caller array', tags('alias', op='setitem'))
        v[0] = -1.0
        if M.data[0, a, b] == -1.0:
            rec.fail(c, 'stored pair function aliases the caller array', tags('alias', op='setitem'))
        if not np.array_equal(M.get(a, b), M[types[a], types[b]]):
            rec.fail(c, 'get(i,j) differs from the type-keyed read', tags('value', op='get'))
        rec.outcome(core.digest([rank, L, a, b, M.data.ravel()[:5]]))
    # iterpairs: each unordered pair once, in type order, data of that pair
    got = [(ij, tt) for ij, tt, _ in A.iterpairs()]
    want = [((i, j), (types[i], types[j])) for i in range(rank) for j in range(rank) if i <= j]
    if got != want:
        rec.fail(c, 'iterpairs order/coverage wrong: %s' % (got,), tags('value', op='iterpairs'))
    for (i, j), _, val in A.iterpairs():
        if not np.array_equal(val, A0[:, i, j]):
            rec.fail(c, 'iterpairs yields wrong data for (%d,%d)' % (i, j), tags('value', op='iterpairs'))
    # unknown names
    for key, setting in itertools.product([('zz', types[0]), (types[0], 'zz'), ('zz', 'zz')], (False, True)):
        snap = A.data.copy()
        try:
            if setting:
                A[key] = np.zeros(L)
            else:
                A[key]
            rec.fail(c, 'unknown type name %r accepted (%s)' % (key, 'set' if setting else 'get'), tags('value', op='unknown'))
        except ValueError:
            pass
        except Exception as e:
            rec.fail(c, 'unknown type name raised %s, not ValueError' % type(e).__name__, tags('value', op='unknown'))
        if not np.array_equal(A.data, snap):
            rec.fail(c, 'failed access with unknown type name modified the array', tags('alias', op='unknown'))
        rec.trans()
    # IdentityMatrixArray
    I = P.IdentityMatrixArray(length=L, rank=rank, space=P.Space.Fourier, types=types)
    eye = np.broadcast_to(np.eye(rank), (L, rank, rank))
    if not np.array_equal(I.data, eye):
        rec.fail(c, 'IdentityMatrixArray data is not the identity', tags('value', op='identity'))
    D = I - A
    rec.trans()
    if not np.array_equal(D.data, ref_binop(np.array(eye), A0, '-')) or not np.array_equal(I.data, eye):
        rec.fail(c, 'I - A differs from the matrix-by-matrix result or modified I', tags('value', op='identity'))
    # an IdentityMatrixArray carries the flag it was given and combines like any other MatrixArray: both operand orders x 3x3 flags
    for fI, fA in itertools.product(FLAGS, FLAGS):
        Ix = P.IdentityMatrixArray(length=L, rank=rank, space=getattr(P.Space, fI), types=types)
        Ax = P.MatrixArray(length=L, rank=rank, data=A0.copy(), space=getattr(P.Space, fA), types=types)
        if Ix.space != getattr(P.Space, fI):
            rec.fail(c, 'IdentityMatrixArray(space=%s) is flagged %s' % (fI, Ix.space), tags('space', op='identity'))
            continue
        for order in ('I-A', 'A-I', 'I.dot(A)', 'A*I'):
            rec.trans()
            try:
                R = {'I-A': lambda: Ix - Ax, 'A-I': lambda: Ax - Ix, 'I.dot(A)': lambda: Ix.dot(Ax), 'A*I': lambda: Ax * Ix}[order]()
                raised = None
            except Exception as e:
                raised = e
            if compatible(fI, fA):
                if raised is not None:
                    rec.fail(c, '%s with an Identity flagged %s and an array flagged %s was refused (%s)' % (order, fI, fA, type(raised).__name__),
                             tags('space', op='identity'))
                else:
                    want = {'I-A': eye - A0, 'A-I': A0 - eye, 'I.dot(A)': A0, 'A*I': A0 * eye}[order]
                    if not float(np.max(np.abs(R.data - want))) <= 1e-12 * float(np.max(np.abs(A0))):
                        rec.fail(c, '%s (Identity %s, array %s) differs from the matrix-by-matrix result' % (order, fI, fA), tags('value', op='identity'))
            elif raised is None:
                rec.fail(c, '%s between an Identity flagged %s and an array flagged %s was not refused' % (order, fI, fA), tags('space', op='identity'))
    # division and multiplication by a NonSpatial array with very small entries (the pair density of a trace component)
    tiny = P.MatrixArray(length=1, rank=rank, data=np.full((1, rank, rank), 3e-15) * (1.0 + np.arange(rank * rank).reshape(1, rank, rank)),
                         space=P.Space.NonSpatial, types=types)
    for sym in ('/', '*'):
        Ax = P.MatrixArray(length=L, rank=rank, data=A0.copy(), space=P.Space.Fourier, types=types)
        want = ref_binop(A0, tiny.data, sym)
        R1 = do_binop(Ax, tiny, sym, False)
        R2 = do_binop(Ax, tiny, sym, True)
        rec.trans(2)
        if not np.array_equal(R1.data, want) or not np.array_equal(R2.data, want):
            rec.fail(c, 'A %s D with a NonSpatial D whose entries are ~1e-14 differs from the matrix-by-matrix result (relative deviation %.3g)'
                     % (sym, float(np.max(np.abs(R1.data - want) / np.abs(want)))), tags('value', op=sym, operand='tiny'))
    # integer labels that are not their own positions: a key is a label, never a position
    if rank >= 2:
        ilab = list(range(rank))[1:] + [0]            # [1, 2, ..., 0]
        Mi = P.MatrixArray(length=L, rank=rank, data=gen(rank, L, 0.4), types=ilab)
        bi = Mi.data.copy()
        rec.trans()
        oki = True
        for a, b in itertools.product(range(rank), repeat=2):
            oki = oki and np.array_equal(Mi[ilab[a], ilab[b]], bi[:, a, b])
        vv = np.arange(L, dtype=float) + 0.75
        Mi[ilab[0], ilab[rank - 1]] = vv
        ei = bi.copy()
        ei[:, 0, rank - 1] = vv
        ei[:, rank - 1, 0] = vv
        if not oki or not np.array_equal(Mi.data, ei):
            rec.fail(c, 'MatrixArray with integer type labels %r: name-keyed access treats a label as a position' % (ilab,), tags('value', op='typemap'))
    # a second array with the same names in another order is alive: name-keyed access of each uses its own order
    if rank >= 2:
        M1 = P.MatrixArray(length=L, rank=rank, data=gen(rank, L, 0.4), types=list(types))
        M2 = P.MatrixArray(length=L, rank=rank, data=gen(rank, L, 0.7), types=list(types[::-1]))
        b1, b2 = M1.data.copy(), M2.data.copy()
        rec.trans()
        ok = True
        for a, b in itertools.product(range(rank), repeat=2):
            ok = ok and np.array_equal(M1[types[a], types[b]], b1[:, a, b]) and np.array_equal(M2[types[a], types[b]], b2[:, rank - 1 - a, rank - 1 - b])
        v = np.arange(L, dtype=float) + 0.25
        M1[types[0], types[1]] = v
        e1 = b1.copy()
        e1[:, 0, 1] = v
        e1[:, 1, 0] = v
        M2[types[0], types[1]] = v + 1
        e2 = b2.copy()
        e2[:, rank - 1, rank - 2] = v + 1
        e2[:, rank - 2, rank - 1] = v + 1
        if not ok or not np.array_equal(M1.data, e1) or not np.array_equal(M2.data, e2):
            rec.fail(c, 'two MatrixArrays with the same type names in different order: name-keyed access of one uses the order of the other',
                     tags('value', op='typemap'))
    rec.trace()


# E2 ------------------------------------------------------------------------
INPLACE_OPS = ['+=s', '-=s', '*=s', '/=s', '+=M', '-=M', '*=M', '/=M', '@=M', 'inv',
               'set', 'setM',            # writes through into the existing buffer (pair by type names / one matrix)
               'inv?', 'copy?',          # out-of-place observers: must see the *current* contents and leave A alone
               'aug', 'rev',             # A[t0,tN] += s  /  A[t0,tN] = A[t0,tN][::-1]  (augmented / self-aliasing assignment by type names)
               'dot?', 'iter?',          # A.dot(M) out of place (result kept and re-examined later) / iterpairs views are the current data
               'flip']                   # Domain transform of A to the other space (reference: 1-D transform pair by pair)


def case_seq(rec, c):
    P = pp()
    rank, L = c['rank'], c['length']
    A = mk(rank, L, 'Fourier', 0.1)
    M = mk(rank, L, 'Fourier', 0.9)
    M0 = M.data.copy()
    ref = A.data.copy()
    s = 1.25
    rec.state()
    err_scale = 1.0
    held = []                                      # results handed out earlier: (object, snapshot)
    cur_space = [P.Space.Fourier]
    for n, op in enumerate(c['ops']):
        if op == 'inv':
            # the property is about well-conditioned data: prune sequences that reach an ill-conditioned array
            try:
                cnd = max(float(np.linalg.cond(ref[l])) for l in range(L))
            except np.linalg.LinAlgError:
                cnd = float('inf')
            if not cnd < 1e4:
                rec.count('pruned_ill_conditioned')
                return
            A.invert(inplace=True)
            ref = np.array([np.linalg.inv(ref[l]) for l in range(L)])
        elif op == '@=M':
            A @= M
            ref = ref_dot(ref, M0)
        elif op == 'set':
            v = 0.25 + 0.125 * np.arange(L) + 0.5 * n
            A[A.types[0], A.types[-1]] = v
            ref = ref.copy()
            ref[:, 0, rank - 1] = v
            ref[:, rank - 1, 0] = v
        elif op == 'setM':
            mat = np.eye(rank) * (2.0 + n) + 0.125
            A.setMatrix(L - 1, mat)
            ref = ref.copy()
            ref[L - 1] = mat
        elif op == 'aug':
            A[A.types[0], A.types[-1]] += 1.5 + n
            ref = ref.copy()
            ref[:, 0, rank - 1] += 1.5 + n           # read (t0,tN), add, write back to (t0,tN) and its mirror
            ref[:, rank - 1, 0] = ref[:, 0, rank - 1]
        elif op == 'rev':
            A[A.types[0], A.types[-1]] = A[A.types[0], A.types[-1]][::-1]
            ref = ref.copy()
            col = ref[::-1, 0, rank - 1].copy()
            ref[:, 0, rank - 1] = col
            ref[:, rank - 1, 0] = col
        elif op == 'dot?':
            R = A.dot(M)
            want = ref_dot(ref, M0)
            scw = float(np.max(np.abs(want)))
            if R is A or np.shares_memory(R.data, A.data) or np.shares_memory(R.data, M.data) or any(np.shares_memory(R.data, o.data) for o, _ in held):
                rec.fail({'kind': 'seq', 'rank': rank, 'length': L, 'ops': c['ops'][:n + 1]},
                         'sequence %s: the result of out-of-place dot shares memory with an operand or with an earlier result' % (c['ops'][:n + 1],),
                         tags('alias', op=op, seq=True))
                return
            if not float(np.max(np.abs(R.data - want))) <= 256 * np.finfo(float).eps * rank * min(err_scale, 1e8) * scw:
                rec.fail({'kind': 'seq', 'rank': rank, 'length': L, 'ops': c['ops'][:n + 1]},
                         'sequence %s: A.dot(M) is not the matrix-by-matrix product of the current contents' % (c['ops'][:n + 1],), tags('value', op=op, seq=True))
                return
            held.append((R, R.data.copy()))
        elif op == 'iter?':
            for (i, j), (ta, tb), view in A.iterpairs():
                if not np.array_equal(view, A.data[:, i, j]) or not np.shares_memory(view, A.data):
                    rec.fail({'kind': 'seq', 'rank': rank, 'length': L, 'ops': c['ops'][:n + 1]},
                             'sequence %s: iterpairs yields something else than the current pair function (%d,%d)' % (c['ops'][:n + 1], i, j),
                             tags('value', op=op, seq=True))
                    return
        elif op == 'flip':
            if not (np.array_equal(ref, np.transpose(ref, (0, 2, 1)))):
                rec.count('disabled')              # the Domain transforms are defined on symmetric arrays (upper triangle is mirrored)
                return
            dom = P.Domain(length=L, dr=0.1)
            if len(dom.r) != L:
                rec.count('skipped_preconditions')
                return
            tofourier = (A.space == P.Space.Real)
            one = dom.to_fourier if tofourier else dom.to_real
            (dom.MatrixArray_to_fourier if tofourier else dom.MatrixArray_to_real)(A)
            new = np.empty_like(ref)
            for i in range(rank):
                for j in range(rank):
                    new[:, i, j] = one(ref[:, i, j])
            ref = new
            expect_space = P.Space.Fourier if tofourier else P.Space.Real
            if A.space != expect_space:
                rec.fail({'kind': 'seq', 'rank': rank, 'length': L, 'ops': c['ops'][:n + 1]},
                         'sequence %s: transform did not set the space flag' % (c['ops'][:n + 1],), tags('space', op=op, seq=True))
                return
            M.space = A.space                      # the right operand follows (it only has to be compatible)
            cur_space[0] = A.space
        elif op == 'inv?':
            try:
                cnd = max(float(np.linalg.cond(ref[l])) for l in range(L))
            except np.linalg.LinAlgError:
                cnd = float('inf')
            if not cnd < 1e4:
                rec.count('pruned_ill_conditioned')
                return
            R = A.invert()
            want = np.array([np.linalg.inv(ref[l]) for l in range(L)])
            tolv = 256 * np.finfo(float).eps * rank * cnd * min(err_scale, 1e8)
            if R is A or np.shares_memory(R.data, A.data):
                rec.fail({'kind': 'seq', 'rank': rank, 'length': L, 'ops': c['ops'][:n + 1]},
                         'sequence %s: out-of-place invert aliases its operand' % (c['ops'][:n + 1],), tags('alias', op=op, seq=True))
                return
            if not float(np.max(np.abs(R.data - want))) <= tolv * float(np.max(np.abs(want))):
                rec.fail({'kind': 'seq', 'rank': rank, 'length': L, 'ops': c['ops'][:n + 1]},
                         'sequence %s: A.invert() is not the inverse of the current contents of A (max dev %.3g)'
                         % (c['ops'][:n + 1], float(np.max(np.abs(R.data - want)))), tags('value', op=op, seq=True))
                return
            R.data[...] = 7.0                      # the caller owns the result
        elif op == 'copy?':
            Cp = A.get_copy()
            if np.shares_memory(Cp.data, A.data) or not np.array_equal(Cp.data, A.data):
                rec.fail({'kind': 'seq', 'rank': rank, 'length': L, 'ops': c['ops'][:n + 1]},
                         'sequence %s: get_copy is not an independent copy of the current contents' % (c['ops'][:n + 1],), tags('alias', op=op, seq=True))
                return
            Cp.data[...] = -3.0
        else:
            sym, rhs = op[0], op[2]
            b = s if rhs == 's' else M
            do_binop(A, b, sym, True)
            ref = ref_binop(ref, s if rhs == 's' else M0, sym)
        rec.trans()
        if not np.all(np.isfinite(ref)):
            rec.count('pruned_ill_conditioned')
            return
        cond = max(float(np.linalg.cond(ref[l])) for l in range(L))
        err_scale *= max(1.0, cond)
        tol = 256 * np.finfo(float).eps * rank * min(err_scale, 1e8)
        sc = float(np.max(np.abs(ref)))
        if A.data.shape != ref.shape or not float(np.max(np.abs(A.data - ref))) <= tol * sc:
            rec.fail({'kind': 'seq', 'rank': rank, 'length': L, 'ops': c['ops'][:n + 1]},
                     'in-place sequence %s: left operand differs from the numpy reference after step %d' % (c['ops'][:n + 1], n + 1),
                     tags('value', op=op, seq=True))
            return
        if not np.array_equal(M.data, M0):
            rec.fail({'kind': 'seq', 'rank': rank, 'length': L, 'ops': c['ops'][:n + 1]},
                     'in-place sequence %s modified the right operand' % (c['ops'][:n + 1],), tags('alias', op=op, seq=True))
            return
        if A.space != cur_space[0]:
            rec.fail(c, 'in-place sequence changed the space flag', tags('space', op=op, seq=True))
            return
        for o, snap in held:
            if not np.array_equal(o.data, snap):
                rec.fail({'kind': 'seq', 'rank': rank, 'length': L, 'ops': c['ops'][:n + 1]},
                         'sequence %s: a MatrixArray returned by an earlier out-of-place dot changed afterwards' % (c['ops'][:n + 1],), tags('alias', op=op, seq=True))
                return
    rec.trace()
    rec.outcome(core.digest([rank, L, c['ops'], A.data.ravel()[:5]], 7))


IDENT_OPS = ['+=s', '*=s', '-=M', 'set', 'setM', 'inv', 'new', 'oop', 'dot?', 'inv?', 'copy?']


def case_ident_seq(rec, c):
    """Two IdentityMatrixArrays of one shape plus every freshly constructed one: operations on the first never
    show up in the others (no shared identity block)."""
    P = pp()
    rank, L = c['rank'], c['length']
    I1 = P.IdentityMatrixArray(length=L, rank=rank, space=P.Space.Fourier)
    I2 = P.IdentityMatrixArray(length=L, rank=rank, space=P.Space.Fourier)
    M = mk(rank, L, 'Fourier', 0.9)
    M0 = M.data.copy()
    eye = np.array(np.broadcast_to(np.eye(rank), (L, rank, rank)))
    ref = eye.copy()
    rec.state()
    for n, op in enumerate(c['ops']):
        hist = {'kind': 'ident_seq', 'rank': rank, 'length': L, 'ops': c['ops'][:n + 1]}
        try:
            if op == '+=s':
                I1 += 0.5
                ref = ref + 0.5
            elif op == '*=s':
                I1 *= 3.0
                ref = ref * 3.0
            elif op == '-=M':
                I1 -= M
                ref = ref - M0
            elif op == 'set':
                v = 0.25 + 0.125 * np.arange(L)
                I1[I1.types[0], I1.types[-1]] = v
                ref = ref.copy()
                ref[:, 0, rank - 1] = v
                ref[:, rank - 1, 0] = v
            elif op == 'setM':
                I1.setMatrix(0, np.full((rank, rank), 2.0))
                ref = ref.copy()
                ref[0] = 2.0
            elif op == 'inv':
                if not max(float(np.linalg.cond(ref[l])) for l in range(L)) < 1e4:
                    rec.count('pruned_ill_conditioned')
                    return
                I1.invert(inplace=True)
                ref = np.array([np.linalg.inv(ref[l]) for l in range(L)])
            elif op == 'new':
                I3 = P.IdentityMatrixArray(length=L, rank=rank, space=P.Space.Fourier)
                if not np.array_equal(I3.data, eye):
                    rec.fail(hist, 'history %s on one IdentityMatrixArray: a newly constructed IdentityMatrixArray(length=%d, rank=%d) is not the identity'
                             % (c['ops'][:n + 1], L, rank), tags('alias', op='identity', seq=True))
                    return
                I3.data[...] = 11.0                # and it is the caller's own
            elif op == 'dot?':
                R = I1.dot(M)
                want = ref_dot(ref, M0)
                if not float(np.max(np.abs(R.data - want))) <= 1e-9 * max(1.0, float(np.max(np.abs(want)))):
                    rec.fail(hist, 'history %s: I.dot(M) with the (modified) IdentityMatrixArray is not the product of its current contents with M' % (c['ops'][:n + 1],),
                             tags('value', op='identity', seq=True))
                    return
                R2 = I1 @ M
                if not float(np.max(np.abs(R2.data - want))) <= 1e-9 * max(1.0, float(np.max(np.abs(want)))):
                    rec.fail(hist, 'history %s: I @ M with the (modified) IdentityMatrixArray is not the product of its current contents with M' % (c['ops'][:n + 1],),
                             tags('value', op='identity', seq=True))
                    return
            elif op == 'inv?':
                if not max(float(np.linalg.cond(ref[l])) for l in range(L)) < 1e4:
                    rec.count('pruned_ill_conditioned')
                    return
                R = I1.invert()
                want = np.array([np.linalg.inv(ref[l]) for l in range(L)])
                if not float(np.max(np.abs(R.data - want))) <= 1e-8 * max(1.0, float(np.max(np.abs(want)))):
                    rec.fail(hist, 'history %s: invert() of the (modified) IdentityMatrixArray is not the inverse of its current contents' % (c['ops'][:n + 1],),
                             tags('value', op='identity', seq=True))
                    return
            elif op == 'copy?':
                Cp = I1.get_copy()
                if np.shares_memory(Cp.data, I1.data) or not np.array_equal(Cp.data, I1.data):
                    rec.fail(hist, 'history %s: get_copy() of the (modified) IdentityMatrixArray is not an independent copy of its current contents' % (c['ops'][:n + 1],),
                             tags('alias', op='identity', seq=True))
                    return
            elif op == 'oop':
                D = I2 - M
                if not np.array_equal(D.data, eye - M0):
                    rec.fail(hist, 'history %s: I - M with an untouched IdentityMatrixArray differs from the matrix-by-matrix result' % (c['ops'][:n + 1],),
                             tags('value', op='identity', seq=True))
                    return
        except Exception as e:
            rec.fail(hist, 'history %s raised %s: %s' % (c['ops'][:n + 1], type(e).__name__, str(e)[:80]), tags('raises', op='identity', seq=True))
            return
        rec.trans()
        if not np.array_equal(I2.data, eye):
            rec.fail(hist, 'history %s on one IdentityMatrixArray changed another IdentityMatrixArray of the same shape' % (c['ops'][:n + 1],),
                     tags('alias', op='identity', seq=True))
            return
        sc = float(np.max(np.abs(ref)))
        if not float(np.max(np.abs(I1.data - ref))) <= 1e-9 * sc:
            rec.fail(hist, 'history %s: the modified IdentityMatrixArray differs from the numpy reference' % (c['ops'][:n + 1],), tags('value', op='identity', seq=True))
            return
        if not np.array_equal(M.data, M0):
            rec.fail(hist, 'history %s modified the right operand' % (c['ops'][:n + 1],), tags('alias', op='identity', seq=True))
            return
    rec.trace()
    rec.outcome(core.digest([rank, L, 'ident', c['ops'], I1.data.ravel()[:5]], 7))


def replay(rec, case):
    with warnings.catch_warnings(), np.errstate(all='ignore'):
        warnings.simplefilter('ignore')
        {'binop': case_binop, 'dot': case_dot, 'invert': case_invert, 'keys': case_copy_keys, 'seq': case_seq, 'ident_seq': case_ident_seq}[case['kind']](rec, case)


def _worker(item):
    rec = Rec('C13')
    with warnings.catch_warnings(), np.errstate(all='ignore'):
        warnings.simplefilter('ignore')
        if item[0] == 'matrix':
            _, rank, lengths = item
            for L in lengths:
                for op, kind, inplace, f1 in itertools.product(BINOPS, OPERAND_KINDS, (False, True), FLAGS):
                    f2s = FLAGS if kind in ('MA', 'MA1') else ['-']
                    for f2 in f2s:
                        case_binop(rec, {'kind': 'binop', 'rank': rank, 'length': L, 'op': op, 'operand': kind,
                                         'inplace': inplace, 'f1': f1, 'f2': f2})
                for how, f1, f2 in itertools.product(['dot', 'dot_inplace', 'matmul', 'imatmul'], FLAGS, FLAGS):
                    case_dot(rec, {'kind': 'dot', 'rank': rank, 'length': L, 'how': how, 'f1': f1, 'f2': f2})
                for inplace, f1 in itertools.product((False, True), FLAGS):
                    case_invert(rec, {'kind': 'invert', 'rank': rank, 'length': L, 'inplace': inplace, 'f1': f1})
                for inplace, shape in itertools.product((False, True), ('sym', 'nearsym')):
                    case_invert(rec, {'kind': 'invert', 'rank': rank, 'length': L, 'inplace': inplace, 'f1': 'Fourier', 'shape': shape})
                case_copy_keys(rec, {'kind': 'keys', 'rank': rank, 'length': L})
        else:
            # E2 shard: all sequences of length <= depth that start with `first`
            _, which, rank, L, first, depth = item
            alphabet = INPLACE_OPS if which == 'seq' else IDENT_OPS
            fn = case_seq if which == 'seq' else case_ident_seq
            for d in range(0, depth):
                for tail in itertools.product(alphabet, repeat=d):
                    fn(rec, {'kind': which, 'rank': rank, 'length': L, 'ops': [first] + list(tail)})
    return rec.to_dict()


def run(rec, tier, seed):
    if tier == 'quick':
        ranks, lengths, depth = [1, 2, 3], [1, 2, 3, 7], 3
    else:
        ranks, lengths, depth = [1, 2, 3, 4, 5], [1, 2, 3, 7, 64], 4
    items = [('matrix', r, lengths) for r in ranks]
    for r in ranks:
        for L in [x for x in lengths if x <= 7][:2]:
            for first in INPLACE_OPS:
                items.append(('e2', 'seq', r, L, first, depth))
            for first in IDENT_OPS:
                items.append(('e2', 'ident_seq', r, L, first, depth))
    core.pmap(_worker, items, rec)
    rec.note('alphabets', {'ranks': ranks, 'lengths': lengths, 'binops': BINOPS, 'operand_kinds': OPERAND_KINDS,
                           'flags': FLAGS, 'inplace_ops': INPLACE_OPS, 'identity_ops': IDENT_OPS})
    rec.note('bounds', {'inplace_sequence_depth': depth})
    rec.sample({'kind': 'binop', 'rank': 2, 'length': 7, 'op': '/', 'operand': 'MA1', 'inplace': True, 'f1': 'Fourier', 'f2': 'NonSpatial'})
    rec.sample({'kind': 'seq', 'rank': 3, 'length': 2, 'ops': ['*=M', 'inv', '@=M']})
    rec.sample({'kind': 'dot', 'rank': 3, 'length': 7, 'how': 'imatmul', 'f1': 'Real', 'f2': 'Fourier'})
