"""C06 - post-processing is history independent and never corrupts the solved
object.  Engine E2: explicit-state BFS over call histories on one solved PRISM
object (deepcopy + one real call per transition) with a canonical abstract
state, plus all call sequences up to a depth without deduplication.
Oracle: differential against a fresh, identically solved object."""
from __future__ import annotations

import copy
import itertools
import warnings
from collections import deque

import numpy as np

from mc import core, build
from mc.core import Rec, HarnessError

META = {
    'rule': ('states: abstract states (space flags of totalCorr/directCorr/omega, data tags relative '
             'to the fresh reference, root class, digests of every other array attribute) reached by BFS '
             'over 16 operations; transitions: one real call on a deepcopy of the parent object with the '
             'differential oracle evaluated; traces: complete call sequences enumerated without '
             'deduplication; an outcome is non-trivial when the call returned data that was compared '
             'with the fresh-object reference (distinct = digest of op + returned data)'),
    'assumptions': ['Domain.to_fourier/to_real define the r<->k correspondence of the reference arrays (decided by C07/C08)',
                    'scipy.optimize.root is deterministic for fixed inputs with BLAS threads pinned to 1'],
}

OPS = ['pair_correlation', 'structure_factor:T', 'structure_factor:F', 'pmf',
       'second_virial:T', 'second_virial:F', 'chi:T', 'chi:F',
       'spinodal_condition:T', 'spinodal_condition:F',
       'solvation_potential:HNC', 'solvation_potential:PY',
       'flip:totalCorr', 'flip:directCorr', 'flip:omega', 'resolve']

G = ['Gaussian', {'sigma': 1.0, 'length': 6}]
SYSTEMS = {
    'bin': {
        'types': ['A', 'B'], 'kT': 1.3, 'domain': {'length': 128, 'dr': 0.1},
        'density': {'A': 0.30, 'B': 0.18}, 'diameter': {'A': 1.0, 'B': 1.4},
        'pairs': {
            'A|A': {'closure': ['PY', False], 'potential': ['HS', {}], 'omega': G},
            'A|B': {'closure': ['PY', False], 'potential': ['EXP', {'epsilon': 0.25, 'alpha': 0.5}], 'omega': ['NoIntra', {}]},
            'B|B': {'closure': ['HNC', True], 'potential': ['HCLJ', {'epsilon': 0.2}], 'omega': ['SingleSite', {}]},
        }},
    'ter': {
        'types': ['P', 'Q', 'S'], 'kT': 1.1, 'domain': {'length': 127, 'dr': 0.1},
        'density': {'P': 0.22, 'Q': 0.13, 'S': 0.17}, 'diameter': {'P': 1.0, 'Q': 1.2, 'S': 0.8},
        'pairs': {
            'P|P': {'closure': ['PY', False], 'potential': ['HS', {}], 'omega': ['GaussBlockDiag', {'block': 3, 'sigma': 1.0}]},
            'P|Q': {'closure': ['PY', True], 'potential': ['HS', {}], 'omega': ['GaussBlockCross', {'Na': 3, 'Nb': 4, 'sigma': 1.0}]},
            'P|S': {'closure': ['HNC', False], 'potential': ['HCLJ', {'epsilon': 0.15}], 'omega': ['NoIntra', {}]},
            'Q|Q': {'closure': ['HNC', False], 'potential': ['HS', {}], 'omega': ['GaussBlockDiag', {'block': 4, 'sigma': 1.0}]},
            'Q|S': {'closure': ['PY', False], 'potential': ['EXP', {'epsilon': 0.2, 'alpha': 0.6}], 'omega': ['NoIntra', {}]},
            'S|S': {'closure': ['MSA', True], 'potential': ['EXP', {'epsilon': 0.1, 'alpha': 0.5}], 'omega': ['SingleSite', {}]},
        }},
}

# a solution with strongly negative g(r) (MSA with the hard-core flag on a repulsive exponential tail at low temperature:
# g ~ 1 - u/kT is about -2 next to the core): nothing in the post-processing may "repair" the stored arrays
SYSTEMS['neg'] = {
    'types': ['U', 'V'], 'kT': 0.5, 'domain': {'length': 128, 'dr': 0.1},
    'density': {'U': 0.05, 'V': 0.03}, 'diameter': {'U': 1.0, 'V': 1.2},
    'pairs': {
        'U|U': {'closure': ['MSA', True], 'potential': ['EXP', {'epsilon': -1.5, 'alpha': 0.5}], 'omega': ['SingleSite', {}]},
        'U|V': {'closure': ['MSA', True], 'potential': ['EXP', {'epsilon': -1.0, 'alpha': 0.4}], 'omega': ['NoIntra', {}]},
        'V|V': {'closure': ['PY', False], 'potential': ['HS', {}], 'omega': ['SingleSite', {}]},
    }}

TOL_EXACT = 1e-9      # relative to the scale of the reference, no re-solve in the history
TOL_RESOLVED = 1e-6   # after a re-solve: accuracy of two converged solves (both polished to 1e-11)
ARRS = ('totalCorr', 'directCorr', 'omega')


# --------------------------------------------------------------------------

def _spaces():
    import pyPRISM
    return pyPRISM.Space


def solve_fresh(spec):
    """A fresh, identically solved object (deterministic)."""
    P = build.create_prism(spec)
    if not build.domain_ok(P.sys.domain):
        raise HarnessError('C06 start system uses a Domain with a wrong grid length (C07 precondition)')
    res = None
    for rt in ('krylov', 'anderson', 'df-sane'):
        P = build.create_prism(spec)
        res = build.try_solve(P, rt)
        if res is not None:
            break
    if res is None:
        raise HarnessError('C06 start system does not converge: nothing can be decided')
    res = build.polish(P, res.x)
    if res is None:
        raise HarnessError('C06 start system cannot be polished')
    return P


def call_op(P, op, raw=False):
    """One real call.  Returns ('data', dict name->array) or ('none', {})."""
    import pyPRISM
    calc = pyPRISM.calculate
    S = _spaces()
    name, _, arg = op.partition(':')
    with warnings.catch_warnings(), np.errstate(all='ignore'):
        warnings.simplefilter('ignore')
        if name == 'flip':
            arr = getattr(P, arg)
            if arr.space == S.Real:
                P.sys.domain.MatrixArray_to_fourier(arr)
            else:
                P.sys.domain.MatrixArray_to_real(arr)
            return {}
        if name == 'resolve':
            x0 = np.array(P.minimize_result.x, dtype=float)
            res = P.solve(guess=x0, method='krylov', options={'maxiter': 60, 'fatol': 1e-11, 'disp': False})
            return {'success': np.array([1.0 if res.success else 0.0]), 'x': np.array(res.x, dtype=float)}
        if name == 'pair_correlation':
            out = calc.pair_correlation(P)
        elif name == 'pmf':
            out = calc.pmf(P)
        elif name == 'structure_factor':
            out = calc.structure_factor(P, normalize=(arg == 'T'))
        elif name == 'second_virial':
            out = calc.second_virial(P, extrapolate=(arg == 'T'))
        elif name == 'chi':
            out = calc.chi(P, extrapolate=(arg == 'T'))
        elif name == 'spinodal_condition':
            out = calc.spinodal_condition(P, extrapolate=(arg == 'T'))
        elif name == 'solvation_potential':
            out = calc.solvation_potential(P, closure=arg)
        else:
            raise KeyError(op)
    if raw:
        return out
    return normalise(out, P.sys.types)


def normalise(out, types):
    import pyPRISM
    if isinstance(out, pyPRISM.MatrixArray):
        return {'data': np.array(out.data, dtype=float), 'space': np.array([float(out.space.value)])}
    if isinstance(out, pyPRISM.PairTable):
        d = {}
        for a in types:
            for b in types:
                v = out[a, b]
                if v is None:
                    continue
                d['%s|%s' % (a, b)] = np.atleast_1d(np.array(v, dtype=float))
        return d
    raise HarnessError('unexpected return type %r' % type(out))


class Base(object):
    """Fresh solved object and every reference value derived from it."""

    def __init__(self, sysname):
        S = _spaces()
        self.sysname = sysname
        self.spec = SYSTEMS[sysname]
        self.P0 = solve_fresh(self.spec)
        self.x0 = np.array(self.P0.minimize_result.x, dtype=float)
        dom = self.P0.sys.domain
        self.ref_arr = {}
        for nm in ARRS:
            arr = getattr(self.P0, nm).get_copy()
            other = arr.get_copy()
            if arr.space == S.Real:
                dom.MatrixArray_to_fourier(other)
                self.ref_arr[nm] = {S.Real: arr.data, S.Fourier: other.data}
            else:
                dom.MatrixArray_to_real(other)
                self.ref_arr[nm] = {S.Fourier: arr.data, S.Real: other.data}
        self.ref_out = {}
        for op in OPS:
            if op.startswith('flip') or op == 'resolve':
                continue
            try:
                self.ref_out[op] = call_op(copy.deepcopy(self.P0), op)
            except Exception as e:       # the fresh call itself fails: C05's business, skip here
                self.ref_out[op] = None
        g = self.ref_out['pair_correlation']
        self.gmask = (g['data'] > 1e-6) if g is not None else None
        self.baseline_attrs = None


_BASES = {}


def base(sysname):
    if sysname not in _BASES:
        _BASES[sysname] = Base(sysname)
    return _BASES[sysname]


def enabled(P, op):
    if op == 'resolve':
        return P.omega.space == _spaces().Fourier
    return True


def close(a, b, tol):
    a = np.asarray(a, dtype=float)
    b = np.asarray(b, dtype=float)
    if a.shape != b.shape:
        return False, float('inf')
    fin = np.isfinite(b)
    if not np.array_equal(np.isfinite(a), fin):
        return False, float('inf')
    scale = max(1.0, float(np.max(np.abs(b[fin]))) if fin.any() else 1.0)
    err = float(np.max(np.abs(a[fin] - b[fin]))) if fin.any() else 0.0
    return err <= tol * scale, err / scale


def step(B, P, op, approx):
    """Apply op to P (mutates P).  Returns (problems, approx', outcome-digest-or-None)."""
    probs = []
    tol = TOL_RESOLVED if approx else TOL_EXACT
    try:
        out = call_op(P, op)
    except HarnessError:
        raise
    except Exception as e:
        probs.append(('raises', '%s raised %s: %s' % (op, type(e).__name__, str(e)[:120])))
        return probs, approx, None
    dg = None
    if op == 'resolve':
        approx = True
        tol = TOL_RESOLVED
        if out['success'][0] != 1.0:
            probs.append(('resolve', 're-solve from the own root did not report success'))
        ok, err = close(out['x'], B.x0, TOL_RESOLVED)
        if not ok:
            probs.append(('resolve', 're-solve from the own root moved the root by %.3g (relative)' % err))
        # stored arrays are exactly those of the returned root
        F = build.create_prism(B.spec)
        with warnings.catch_warnings(), np.errstate(all='ignore'):
            warnings.simplefilter('ignore')
            F.cost(np.array(out['x'], dtype=float))
            S = _spaces()
            if F.totalCorr.space == S.Fourier:
                F.sys.domain.MatrixArray_to_real(F.totalCorr)
        for nm in ARRS:
            a, f = getattr(P, nm), getattr(F, nm)
            if a.space != f.space:
                probs.append(('resolve', 'after solve %s is flagged %s, fresh evaluation at the root gives %s' % (nm, a.space, f.space)))
                continue
            ok, err = close(a.data, f.data, 1e-10)
            if not ok:
                probs.append(('resolve', 'after solve stored %s differs from cost(result.x) of a fresh object by %.3g' % (nm, err)))
        dg = core.digest(['resolve', np.round(out['x'], 5)])
    elif not op.startswith('flip'):
        want = B.ref_out.get(op)
        if want is not None:
            if sorted(out) != sorted(want):
                probs.append(('value', '%s returned entries %s, fresh object returns %s' % (op, sorted(out), sorted(want))))
            else:
                for key in sorted(want):
                    a, b = out[key], want[key]
                    if op == 'pmf' and key == 'data' and a.shape == b.shape:
                        m = B.gmask
                        a, b = a[m], b[m]
                    ok, err = close(a, b, tol)
                    if not ok:
                        probs.append(('value', '%s[%s] differs from the fresh-object value by %.3g (relative to scale)' % (op, key, err)))
                        break
            dg = core.digest([op] + [out[k] for k in sorted(out)], 6)
    # state integrity: the three arrays still hold the root's data in the space they claim
    for nm in ARRS:
        arr = getattr(P, nm)
        refd = B.ref_arr[nm].get(arr.space)
        if refd is None:
            probs.append(('state', 'after %s, %s has space flag %r' % (op, nm, arr.space)))
            continue
        ok, err = close(arr.data, refd, tol)
        if not ok:
            probs.append(('state', 'after %s the stored %s no longer equals the solved %s in its flagged space (%s): off by %.3g' % (op, nm, nm, arr.space.name, err)))
    return probs, approx, dg


def canon(B, P, approx):
    items = []
    tol = TOL_RESOLVED if approx else TOL_EXACT
    for nm in ARRS:
        arr = getattr(P, nm)
        refd = B.ref_arr[nm].get(arr.space)
        if refd is not None and close(arr.data, refd, tol)[0]:
            tag = 'ref'
        else:
            tag = core.digest_array(arr.data, 7)
        items.append((nm, arr.space.name, tag))
    extra = []
    for k in sorted(P.__dict__):
        if k in ARRS or k == 'sys':
            continue
        v = P.__dict__[k]
        bv = B.P0.__dict__.get(k)
        if hasattr(v, 'data') and hasattr(v, 'space'):
            if bv is not None and hasattr(bv, 'data') and close(v.data, bv.data, TOL_RESOLVED)[0]:
                tag = 'ref'
            else:
                tag = core.digest_array(v.data, 5)
            extra.append((k, getattr(v.space, 'name', str(v.space)), tag))
        elif isinstance(v, np.ndarray):
            if isinstance(bv, np.ndarray) and close(v, bv, TOL_RESOLVED)[0]:
                tag = 'ref'
            else:
                tag = core.digest_array(v, 5)
            extra.append((k, tag))
        else:
            extra.append((k, type(v).__name__))
    return core.jdump([items, approx, extra])


def report(rec, sysname, hist, probs):
    for kind, msg in probs:
        op = hist[-1]
        rec.fail({'system': sysname, 'ops': list(hist)},
                 'history %s on system %s: %s' % (hist, sysname, msg),
                 tags={'kind': kind, 'op': op.split(':')[0], 'system': sysname},
                 repro=REPRO % (sysname, list(hist)))


REPRO = ("import mc.props.c06 as m, mc.core as c\n"
         "r=c.Rec('C06'); m.replay(r, {'system': %r, 'ops': %r}); print([v['msg'] for v in r.viols])\n"
         "# i.e. build the system of SYSTEMS[...], solve it, apply the listed calls in order on that one object\n"
         "# and compare the last result with the same call on a fresh identically solved object")


# --------------------------------------------------------------------------

def case_held(rec, case):
    """One object, NO copies in between: every result of the sequence is kept as it was returned (the caller's object), and
    after the last call each of them still has the values it had when it was returned, and no two results share memory."""
    import pyPRISM
    B = base(case['system'])
    P = copy.deepcopy(B.P0)
    held = []
    for n, op in enumerate(case['ops']):
        try:
            out = call_op(P, op, raw=True)
        except HarnessError:
            raise
        except Exception as e:
            return               # a raising call is the business of the history enumeration
        rec.trans()
        if isinstance(out, dict):
            continue
        held.append((n, op, out, copy.deepcopy(normalise(out, P.sys.types))))
    for n, op, out, snap in held:
        now = normalise(out, P.sys.types)
        same = sorted(now) == sorted(snap) and all(np.array_equal(now[k], snap[k], equal_nan=True) for k in snap)
        if not same:
            rec.fail({'system': case['system'], 'ops': list(case['ops']), 'kind': 'held'},
                     'one solved object (%s), calls %s: the result that call %d (%s) returned was changed by a later call - results handed out are the caller\'s'
                     % (case['system'], list(case['ops']), n + 1, op), tags={'kind': 'held-result', 'op': op.split(':')[0], 'system': case['system']})
            return
    arrs = [(op, o.data) for _, op, o, _ in held if isinstance(o, pyPRISM.MatrixArray)]
    stored = [(nm, getattr(P, nm).data) for nm in ARRS]
    for i in range(len(arrs)):
        for j, (nm, d) in enumerate(arrs[i + 1:] + stored):
            if np.shares_memory(arrs[i][1], d):
                rec.fail({'system': case['system'], 'ops': list(case['ops']), 'kind': 'held'},
                         'one solved object (%s), calls %s: the array returned by %s shares memory with %s'
                         % (case['system'], list(case['ops']), arrs[i][0], nm), tags={'kind': 'held-result', 'op': arrs[i][0].split(':')[0], 'system': case['system']})
                return
    rec.trace()
    rec.outcome(core.digest(['held', case['system'], case['ops']]))


def _held_worker(item):
    sysname, first, depth = item
    rec = Rec('C06')
    ops = [o for o in OPS if o != 'resolve']
    for tail in itertools.product(ops, repeat=depth - 1):
        case_held(rec, {'system': sysname, 'ops': [first] + list(tail), 'kind': 'held'})
    return rec.to_dict()


def replay(rec, case):
    if case.get('kind') == 'held':
        case_held(rec, case)
        return
    B = base(case['system'])
    P = copy.deepcopy(B.P0)
    approx = False
    hist = []
    for op in case['ops']:
        hist.append(op)
        if not enabled(P, op):
            rec.count('disabled')
            return
        probs, approx, dg = step(B, P, op, approx)
        rec.trans()
        if dg is not None:
            rec.outcome(dg)
        if probs:
            report(rec, case['system'], hist, probs)
            return
    rec.trace()


def bfs(rec, sysname, max_states=4000):
    B = base(sysname)
    P0 = copy.deepcopy(B.P0)
    k0 = canon(B, P0, False)
    seen = {k0}
    frontier = deque([([], P0, False)])
    rec.state()
    depth = 0
    bad_states = 0
    capped = False
    while frontier:
        hist, P, approx = frontier.popleft()
        depth = max(depth, len(hist))
        for op in OPS:
            if not enabled(P, op):
                rec.count('disabled')
                continue
            Q = copy.deepcopy(P)
            probs, ap2, dg = step(B, Q, op, approx)
            rec.trans()
            if dg is not None:
                rec.outcome(dg)
            h2 = hist + [op]
            if probs:
                report(rec, sysname, h2, probs)
                bad_states += 1
                continue            # do not explore beyond a violating transition
            k = canon(B, Q, ap2)
            if k not in seen:
                if len(seen) >= max_states:
                    capped = True
                    continue
                seen.add(k)
                rec.state()
                frontier.append((h2, Q, ap2))
    rec.note('bfs_%s' % sysname, {'abstract_states': len(seen), 'max_depth': depth,
                                   'fixpoint': not capped, 'violating_transitions': bad_states})
    return not capped


def _seq_worker(item):
    """All sequences with the given prefix, to the given total depth, by DFS
    sharing prefixes (deepcopy at each node), no deduplication."""
    sysname, prefix, depth = item
    rec = Rec('C06')
    B = base(sysname)
    P = copy.deepcopy(B.P0)
    approx = False
    hist = []
    for op in prefix:
        if not enabled(P, op):
            rec.count('disabled')
            return rec.to_dict()
        hist.append(op)
        probs, approx, dg = step(B, P, op, approx)
        # prefix transitions are counted by the worker owning the shorter prefix
        if probs:
            return rec.to_dict()    # reported by the shard that enumerates the shorter sequence
    def dfs(P, approx, hist):
        if len(hist) >= depth:
            return
        for op in OPS:
            if not enabled(P, op):
                rec.count('disabled')
                continue
            Q = copy.deepcopy(P)
            probs, ap2, dg = step(B, Q, op, approx)
            rec.trans()
            if dg is not None:
                rec.outcome(dg)
            h2 = hist + [op]
            if probs:
                report(rec, sysname, h2, probs)
                continue
            rec.trace()
            dfs(Q, ap2, h2)

    dfs(P, approx, hist)
    return rec.to_dict()


def run(rec, tier, seed):
    plan = {'quick': {'bin': 3, 'ter': 2, 'neg': 2}, 'thorough': {'bin': 5, 'ter': 4, 'neg': 4}}[tier]
    fix = True
    for sysname in ('bin', 'ter', 'neg'):
        fix = bfs(rec, sysname) and fix
    rec.note('fixpoint', fix)
    items = []
    for sysname, depth in plan.items():
        if depth <= 2:
            items.append((sysname, [], depth))
        else:
            # one shard enumerates (with oracle) every sequence of length <= 2; one shard per
            # 2-prefix replays the prefix silently and enumerates everything below it
            items.append((sysname, [], 2))
            for a in OPS:
                for b in OPS:
                    items.append((sysname, [a, b], depth))
    core.pmap(_seq_worker, items, rec)
    # results kept by the caller while the same object is used further: all sequences of 2 (quick) / 3 (thorough) calls, no copies in between
    hd = 2 if tier == 'quick' else 3
    core.pmap(_held_worker, [(sn, op, hd) for sn in ('bin', 'ter', 'neg') for op in OPS if op != 'resolve'], rec)
    rec.note('held_results', 'all sequences of %d calls on one object with every returned object kept and re-examined after the last call' % hd)
    rec.note('sequence_depths', plan)
    rec.note('operations', OPS)
    rec.note('systems', {k: SYSTEMS[k]['types'] for k in SYSTEMS})
    rec.note('exhaustive', True)
    rec.sample({'system': 'bin', 'ops': ['spinodal_condition:T', 'structure_factor:T']})
    rec.sample({'system': 'ter', 'ops': ['flip:directCorr', 'chi:T', 'resolve', 'pmf']})
