"""C03 - hard-core exclusion: g(r) vanishes everywhere inside the contact
distance.  E1: every hard-core system of the lattice x trial-gamma alphabet:
the closure calls made by the real cost function are captured and must give
c + gamma = -1 bitwise on r < sigma; the arrays stored by cost(x) must satisfy
it to round-trip precision; on converged roots |g| <= |F|/r in the core.
Plus the elementwise product real potential x real closure x position x gamma."""
from __future__ import annotations

import itertools
import warnings

import numpy as np

from mc import core, build, lattice
from mc.core import Rec, HarnessError
from mc.lattice import Tables
from mc.refmodel import basic as ref

META = {
    'rule': ('states: hard-core systems built from the lattice; transitions: real cost(x) evaluations with every closure call captured and the core '
             'invariant checked (plus direct closure evaluations of the elementwise product); traces: (system, trial vector) pairs and converged roots decided; '
             'non-trivial: the core of the pair contains at least one non-ambiguous grid point and the trial gamma is not identically zero; distinct = digest of (system, trial vector, captured core values)'),
    'assumptions': ['grid points within 1e-6 of sigma are excluded (K2 belongs to C10)',
                    'PY/HNC without the flag rely on exp(-u_high/kT) underflowing to exactly 0 (u_high = 1e6); allowance exp(gamma-u)(1+|gamma|) otherwise'],
}

TRIALS = ['zero', 'plus1', 'minus1', 'plus50', 'minus50', 'wiggle', 'root', 'root+bump']


def trial_vector(spec, name, root):
    L = spec['domain']['length']
    n = len(spec['types'])
    dr = spec['domain'].get('dr', 0.1)
    r = dr * np.arange(1, L + 1)
    if name == 'zero':
        g = np.zeros(L)
    elif name in ('plus1', 'minus1', 'plus50', 'minus50'):
        g = np.full(L, {'plus1': 1.0, 'minus1': -1.0, 'plus50': 50.0, 'minus50': -50.0}[name])
    elif name == 'wiggle':
        g = 5.0 * np.sin(3.0 * r) * (-1.0) ** np.arange(L)
    elif name in ('root', 'root+bump'):
        if root is None:
            return None
        x = np.array(root, dtype=float)
        if name == 'root+bump':
            x = x + np.repeat((0.2 * r * np.exp(-(r - 1.2) ** 2))[:, None], n * n, axis=1).reshape(-1)
        return x
    else:
        raise KeyError(name)
    return np.repeat(g[:, None], n * n, axis=1).reshape(-1)


def tags(kind, **kw):
    t = {'kind': kind}
    t.update(kw)
    return t


def capture_closures(P):
    """Wrap calculate of every closure object of P (instance level).  Returns the log list."""
    log = []
    types = P.sys.types
    for i, a in enumerate(types):
        for j, b in enumerate(types):
            if j < i:
                continue
            clo = P.sys.closure[a, b]
            orig = clo.calculate

            def wrapped(r, gamma, _orig=orig, _ij=(i, j)):
                g0 = np.array(gamma, dtype=float, copy=True)
                out = _orig(r, gamma)
                log.append((_ij, np.array(r, dtype=float, copy=True), g0, np.array(out, dtype=float, copy=True)))
                return out
            clo.calculate = wrapped
    return log


def check_cost(rec, case, spec, P, T, x, trial):
    import pyPRISM
    log = capture_closures(P)
    rec.trans()
    with warnings.catch_warnings(), np.errstate(all='ignore'):
        warnings.simplefilter('ignore')
        try:
            y = P.cost(np.array(x, dtype=float))
        except Exception as e:
            if build._from_library(e):
                rec.fail(case, 'cost(x) raised %s: %s' % (type(e).__name__, str(e)[:80]), tags('raises'))
            else:
                rec.count('cost_numerical_failure')
            return
    L, n = len(T.r), T.n
    seen = set()
    dig = []
    for (ij, r, gam, out) in log:
        seen.add(ij)
        cm = T.core_mask(*ij)
        if cm is None or not cm.any():
            continue
        d = T.U[ij]
        want = -1.0 - gam
        if d['closure'][1]:
            bad = cm & ~(out == want)
        else:
            with np.errstate(all='ignore'):
                allow = np.exp(gam - d['u']) * (1.0 + np.abs(gam))
            bad = cm & ~(np.abs(out - want) <= allow)
        if bad.any():
            ii = int(np.argmax(bad))
            rec.fail(dict(case, pair=list(ij), trial=trial),
                     'trial %s: closure of hard-core pair %s-%s (%s%s on %s, sigma=%g) returned c=%r at r=%.4g < sigma for gamma=%r; c + gamma must be exactly -1'
                     % (trial, T.types[ij[0]], T.types[ij[1]], d['closure'][0], '(hc)' if d['closure'][1] else '', d['potential'][0],
                        d['sig_clo'] if d['closure'][1] else d['sig_pot'], float(out[ii]), float(r[ii]), float(gam[ii])),
                     tags('core-closure', cls=d['closure'][0], hc=bool(d['closure'][1])))
        dig.append(out[cm][:6])
    missing = [ij for ij in T.U if ij not in seen]
    if missing:
        rec.fail(dict(case, trial=trial), 'cost(x) did not evaluate the closure of pair(s) %s' % missing, tags('closure-not-called'))
    # stored arrays: c (back in real space) + gamma_in = -1 in the core, to round-trip precision
    Cf = P.directCorr.data
    if np.all(np.isfinite(Cf)) and float(np.max(np.abs(Cf))) < 1e10:
        gin = np.array(x, dtype=float).reshape(L, n, n) / T.r[:, None, None]
        for ij in T.U:
            cm = T.core_mask(*ij)
            if cm is None or not cm.any():
                continue
            for (i, j) in (ij, ij[::-1]):
                c_real = P.sys.domain.to_real(Cf[:, i, j])
                dev = np.abs(c_real + gin[:, i, j] + 1.0)[cm]
                tol = 1e-9 * max(1.0, float(np.max(np.abs(c_real))))
                if float(dev.max()) > tol:
                    rec.fail(dict(case, pair=[i, j], trial=trial),
                             'trial %s: after cost(x) the stored directCorr of hard-core pair %s-%s has c + gamma_in + 1 = %.3g inside the core'
                             % (trial, T.types[i], T.types[j], float(dev.max())), tags('core-stored'))
                    break
    else:
        rec.count('stored_nonfinite_skipped')
    rec.trace()
    if trial != 'zero' and dig:
        rec.outcome(core.digest([case['gen'], trial, dig], 6))


def check_root(rec, case, spec, route):
    P = build.create_prism(spec)
    T = Tables(spec, P.sys.domain)
    rec.count('routes_attempted')
    res = build.try_solve(P, route)
    if res is None:
        return None
    rec.count('routes_converged')
    rec.trans()
    import pyPRISM
    with warnings.catch_warnings():
        warnings.simplefilter('ignore')
        g = pyPRISM.calculate.pair_correlation(P)
    L, n = len(T.r), T.n
    F = np.asarray(res.fun, dtype=float).reshape(L, n, n)
    for ij in T.U:
        cm = T.core_mask(*ij)
        if cm is None or not cm.any():
            continue
        i, j = ij
        d = T.U[ij]
        gg = np.abs(g.data[:, i, j])
        with np.errstate(all='ignore'):
            under = 0.0 if d['closure'][1] else np.exp(-d['u']) * 10
        bound = 1.01 * np.abs(F[:, i, j]) / T.r + 1e-9 + under
        bad = cm & ~(gg <= bound)
        if bad.any():
            ii = int(np.argmax(np.where(bad, gg, 0)))
            rec.fail(dict(case, pair=[i, j], route=route),
                     'converged solution (%s): g(r=%.4g) = %r inside the core of hard-core pair %s-%s; bound |F|/r = %.3g'
                     % (route, T.r[ii], float(g.data[ii, i, j]), T.types[i], T.types[j], float(bound[ii])), tags('core-solved'))
    # the solved object is used further: the residual is looked at once more (cost at the root), and the solve is continued
    # from its own solution - g(r) inside the cores is still bounded by the residual of the evaluation that produced it
    for how in ('cost-again', 'continued'):
        try:
            with warnings.catch_warnings(), np.errstate(all='ignore'):
                warnings.simplefilter('ignore')
                if how == 'cost-again':
                    F2 = np.asarray(P.cost(np.array(res.x, dtype=float)), dtype=float).reshape(L, n, n)
                else:
                    res2 = build.try_solve(P, route, guess=np.array(res.x, dtype=float))
                    if res2 is None:
                        rec.count('continued_solve_not_converged')
                        continue
                    F2 = np.asarray(res2.fun, dtype=float).reshape(L, n, n)
                g2 = pyPRISM.calculate.pair_correlation(P)
        except Exception as e:
            if build._from_library(e):
                rec.fail(dict(case, route=route, how=how), 'solved object (%s), %s: raised %s: %s' % (route, how, type(e).__name__, str(e)[:80]), tags('raises'))
            continue
        rec.trans()
        for ij in T.U:
            cm = T.core_mask(*ij)
            if cm is None or not cm.any():
                continue
            i, j = ij
            d = T.U[ij]
            gg = np.abs(np.asarray(g2.data)[:, i, j])
            with np.errstate(all='ignore'):
                under = 0.0 if d['closure'][1] else np.exp(-d['u']) * 10
            bound = 1.01 * np.abs(F2[:, i, j]) / T.r + 1e-9 + under
            bad = cm & ~(gg <= bound)
            if bad.any():
                ii = int(np.argmax(np.where(bad, gg, 0)))
                rec.fail(dict(case, pair=[i, j], route=route, how=how),
                         'solved object (%s) after %s: g(r=%.4g) = %r inside the core of hard-core pair %s-%s; bound |F|/r = %.3g'
                         % (route, 'one more cost evaluation at the root' if how == 'cost-again' else 'a continued solve from its own solution', T.r[ii],
                            float(np.asarray(g2.data)[ii, i, j]), T.types[i], T.types[j], float(bound[ii])), tags('core-solved'))
                break
    rec.trace()
    return np.array(res.x)


def case_system(rec, c):
    from mc.props import c01
    spec = c01.gen_spec(c)
    if not lattice.has_hard_core(spec):
        rec.count('no_hard_core_pruned')
        return
    P0 = build.create_prism(spec)
    if not build.domain_ok(P0.sys.domain):
        rec.count('skipped_preconditions')
        return
    rec.state()
    rec.count('systems_attempted')
    root = None
    for route in c.get('routes', ['krylov', 'df-sane', 'anderson']):
        x = check_root(rec, c, spec, route)
        if x is not None and root is None:
            root = x
    if root is not None:
        rec.count('systems_converged')
    T = Tables(spec, P0.sys.domain)
    for trial in TRIALS:
        x = trial_vector(spec, trial, root)
        if x is None:
            rec.count('trial_root_unavailable')
            continue
        P = build.create_prism(spec)
        check_cost(rec, c, spec, P, T, x, trial)


# direct product: real potential x real closure x position x gamma ---------------

GAMMAS = [-1e3, -2.0, -1.0, -0.5, 0.0, 0.5, 1.0, 3.0, 1e3]
POTS = [['HS', {}], ['HCLJ', {'epsilon': 0.25}], ['EXP', {'epsilon': 0.3, 'alpha': 0.5}], ['HS', {'high_value': 50.0}]]
CLOS = [['PY', False], ['HNC', False], ['PY', True], ['HNC', True], ['MSA', True], ['MS', True]]


def case_direct(rec, c):
    pspec, cspec, sigma, kT = c['potential'], c['closure'], c['sigma'], c['kT']
    dr = 0.1
    pos = [('deep', 0.4 * sigma), ('in1', sigma - dr), ('at', sigma), ('out1', sigma + dr)]
    U = build.make_potential([pspec[0], dict(pspec[1], sigma=sigma)])
    C = build.make_closure(cspec)
    combos = list(itertools.product(range(len(pos)), GAMMAS))
    r = np.array([pos[p][1] for p, _ in combos])
    gam = np.array([g for _, g in combos])
    with np.errstate(all='ignore'):
        u = np.array(U.calculate(r), dtype=float) / kT
        C.potential = u
        C.sigma = sigma
        rec.state()
        rec.trans()
        out = np.array(C.calculate(r, gam.copy()), dtype=float)
    hv = pspec[1].get('high_value', 1e6)
    for idx, (p, g) in enumerate(combos):
        rec.trace()
        inside = pos[p][0] != 'out1'
        if inside:
            want = -1.0 - g
            if cspec[1]:
                ok = out[idx] == want
            else:
                with np.errstate(all='ignore'):
                    allow = np.exp(g - hv / kT) * (1.0 + abs(g))
                ok = abs(out[idx] - want) <= allow
            if not ok:
                rec.fail(dict(c, element={'pos': pos[p][0], 'gamma': g}),
                         '%s%s on %s%r (sigma=%g, kT=%g): at r=%.4g (%s) gamma=%g gives c=%r, c + gamma must be -1'
                         % (cspec[0], '(hc)' if cspec[1] else '', pspec[0], pspec[1], sigma, kT, r[idx], pos[p][0], g, float(out[idx])),
                         tags('core-closure', cls=cspec[0], hc=bool(cspec[1])))
        rec.outcome(core.digest([pspec, cspec, sigma, kT, pos[p][0], g, float(out[idx]) if np.isfinite(out[idx]) else repr(out[idx])]))
    # non-interference on a 3-point grid: all gamma vectors over a 4-value alphabet
    alpha = [-2.0, 0.0, 0.7, 50.0]
    r3 = np.array([0.4 * sigma, sigma - dr, sigma + dr])
    with np.errstate(all='ignore'):
        C.potential = np.array(U.calculate(r3), dtype=float) / kT
        for vec in itertools.product(alpha, repeat=3):
            g3 = np.array(vec)
            o3 = np.array(C.calculate(r3, g3.copy()), dtype=float)
            rec.trans()
            for q in (0, 1):
                want = -1.0 - g3[q]
                with np.errstate(all='ignore'):
                    allow = 0.0 if cspec[1] else np.exp(g3[q] - hv / kT) * (1.0 + abs(g3[q]))
                if not abs(o3[q] - want) <= allow:
                    rec.fail(dict(c, vector=list(vec)), '%s%s on %s: gamma vector %s gives c=%r at core point %d' % (cspec[0], '(hc)' if cspec[1] else '', pspec[0], list(vec), float(o3[q]), q),
                             tags('core-closure', cls=cspec[0], hc=bool(cspec[1])))
                    return


def replay(rec, case):
    with warnings.catch_warnings(), np.errstate(all='ignore'):
        warnings.simplefilter('ignore')
        if case.get('kind') == 'direct':
            case_direct(rec, case)
        else:
            case_system(rec, case)


def _worker(chunk):
    rec = Rec('C03')
    for c in chunk:
        replay(rec, c)
    return rec.to_dict()


def run(rec, tier, seed):
    from mc.props import c01
    quick = tier == 'quick'
    K = build.KIND_NAMES
    cases = []
    rhos = [0.2, 0.5, 0.8] if not quick else [0.2, 0.6]
    for kind, omk, rho, kT in itertools.product(K, lattice.OMEGA1, rhos, [0.8, 2.5]):
        cases.append({'gen': ['rank1', kind, omk, rho, kT]})
    triples = c01.latin_triples(K) if quick else list(itertools.product(K, repeat=3))
    for tr in triples:
        for omset in ([0] if quick else [0, 1]):
            cases.append({'gen': ['rank2', list(tr), omset, 1.0]})
    # the same kind on every pair, tables filled by one statement (table[types, types] = obj / setUnset), and the
    # specification reached through an edit history
    for kind in K:
        for st in ('bulk-list', 'bulk-setunset', 'edits'):
            cases.append({'gen': ['rank2', [kind, kind, kind], 0, 1.0], 'style': st})
    R3 = lattice.R3_KINDS
    six = [[R3[(a + b * p) % 4] for p in range(6)] for a in range(4) for b in range(4)] if quick else \
          [list(s) for s in itertools.product(R3, repeat=6) if sum(1 for x in s if x == 'PY+EXP') <= 2][::7]
    for s in six:
        cases.append({'gen': ['rank3', s, 1.0]})
    for pspec, cspec, sigma, kT in itertools.product(POTS, CLOS, [1.0, 1.3], [1.0, 2.5]):
        if not cspec[1] and pspec[1].get('high_value'):
            continue        # flag-less closures with a low overlap value are not "hard core" in the property's sense
        cases.append({'kind': 'direct', 'potential': pspec, 'closure': cspec, 'sigma': sigma, 'kT': kT})
    nchunk = 64 if quick else 256
    chunks = [cases[i::nchunk] for i in range(nchunk)]
    core.pmap(_worker, [c for c in chunks if c], rec)
    att, conv = rec.c.get('systems_attempted', 0), rec.c.get('systems_converged', 0)
    rec.note('attempted/converged', [att, conv])
    if att and conv < 0.3 * att:
        raise HarnessError('only %d of %d hard-core systems converged by any route' % (conv, att))
    rec.note('alphabets', {'kinds': K, 'trials': TRIALS, 'rank2_triples': len(triples), 'rank3_assignments': len(six), 'direct_gammas': GAMMAS,
                           'direct_potentials': POTS, 'direct_closures': CLOS})
    rec.sample({'gen': ['rank2', ['PY+LJ', 'HNChc+HCLJ', 'HNC+WCA'], 0, 1.0]})
    rec.sample({'kind': 'direct', 'potential': ['EXP', {'epsilon': 0.3, 'alpha': 0.5}], 'closure': ['HNC', False], 'sigma': 1.3, 'kT': 2.5})
