"""C14 - PairTable and ValueTable behave as symmetric keyed maps with isolated
values.  E2: BFS over operation histories of the real tables stepped alongside
a plain-dict reference model (which also fixes the aliasing structure: one
slot per unordered pair, every slot its own object, none shared with the
caller)."""
from __future__ import annotations

import copy
import itertools
import warnings

import numpy as np
from collections import deque

from mc import core
from mc.core import Rec, HarnessError

META = {
    'rule': ('states: distinct reference-model states (pair -> value incl. mutation/apply markers) reached per shard '
             '(shard = first operation; summed over shards, so a state reachable through several first operations is counted '
             'once per shard); transitions: one real table operation on a deepcopy of the parent table followed by the full '
             'invariant (reads from both key orders, isolation from the caller object, check(), three iteration modes, '
             'apply(inplace=False) isolation); traces: histories ending in a new state; non-trivial: at least one pair set; '
             'distinct = digest of the model state'),
    'assumptions': ['copy.deepcopy of a table preserves its internal aliasing structure (memo semantics)'],
}


def pp():
    import pyPRISM
    return pyPRISM


def sublists(types):
    out = []
    for r in range(1, len(types) + 1):
        for c in itertools.combinations(types, r):
            out.append(list(c))
    return out


def ukey(types, a, b):
    i, j = types.index(a), types.index(b)
    return (i, j) if i <= j else (j, i)


# Stored values are nested on purpose: [payload list, ...].  The payload lives one level down, so that a table
# which only copies the outer container (copy.copy) still shares the payload between pairs / with the caller.
class Falsy(list):
    """A perfectly good value whose truth value is False (like 0, 0.0, '' or an empty array)."""
    def __bool__(self):
        return False


def wrap(seq):
    return Falsy([list(seq)]) if len(seq) == 0 else [list(seq)]


def flat(v):
    return list(v[0]) + list(v[1:])


def apply_func(v):
    return None if v is None else [list(v[0]) + ['f']] + list(v[1:])


# --------------------------------------------------------------------------
# PairTable

def pt_ops(types):
    n = len(types)
    ops = []
    for a in types:
        for b in types:
            ops.append(['set', a, b, [1]])
    ops.append(['set', types[0], types[-1], [2]])
    ops.append(['set', types[-1], types[0], []])          # a falsy (empty) value is a value, not "unset"
    subs = sublists(types)
    if n <= 3:
        for l1 in subs:
            for l2 in subs:
                if len(l1) == 1 and len(l2) == 1:
                    continue
                ops.append(['setlist', l1, l2, [3]])
    else:
        cover = [types, types[:1], types[-1:], types[:2], types[1:3], types[2:], [types[0], types[-1]]]
        for l1 in cover:
            for l2 in cover:
                if len(l1) == 1 and len(l2) == 1:
                    continue
                ops.append(['setlist', l1, l2, [3]])
    ops.append(['setlist_str', types[0], types, [4]])     # a single str key next to a list key
    if isinstance(types[-1], str):
        ops.append(['set_npstr', types[-1], types[0], [5]])   # keys spelled as numpy strings (e.g. from np.unique(labels))
    ops.append(['setUnset', [9]])
    ops.append(['apply'])
    for a in types:
        for b in types:
            ops.append(['mutate', a, b])
    return ops


def pt_enabled(model, types, op):
    if op[0] == 'mutate':
        v = model[ukey(types, op[1], op[2])]
        return v is not None and 'm' not in v
    if op[0] == 'apply':
        return any(v is not None for v in model.values()) and not any(v is not None and 'f' in v for v in model.values())
    return True


def pt_step(T, model, types, op):
    """Apply op to the real table and to the model.  Returns problems found in
    the immediate effect (isolation from the caller's object)."""
    model = dict(model)
    kind = op[0]
    if kind == 'set':
        val = wrap(op[3])
        T[op[1], op[2]] = val
        val[0].append('x')                   # the caller keeps mutating its own object (payload and container)
        val.append('xo')
        model[ukey(types, op[1], op[2])] = tuple(op[3])
    elif kind == 'set_npstr':
        val = wrap(op[3])
        T[np.str_(op[1]), np.str_(op[2])] = val
        val[0].append('x')
        val.append('xo')
        model[ukey(types, op[1], op[2])] = tuple(op[3])
    elif kind in ('setlist', 'setlist_str'):
        val = wrap(op[3])
        T[op[1], op[2]] = val
        val[0].append('x')
        val.append('xo')
        l1 = op[1] if isinstance(op[1], list) else [op[1]]
        l2 = op[2] if isinstance(op[2], list) else [op[2]]
        for a in l1:
            for b in l2:
                model[ukey(types, a, b)] = tuple(op[3])
    elif kind == 'setUnset':
        val = wrap(op[1])
        T.setUnset(val)
        val[0].append('x')
        val.append('xo')
        for k in model:
            if model[k] is None:
                model[k] = tuple(op[1])
    elif kind == 'apply':
        ret = T.apply(apply_func, inplace=True)
        for k in model:
            if model[k] is not None:
                model[k] = tuple(model[k]) + ('f',)
    elif kind == 'mutate':
        T[op[1], op[2]][0].append('m')
        k = ukey(types, op[1], op[2])
        model[k] = tuple(model[k]) + ('m',)
    else:
        raise HarnessError('op %r' % (op,))
    return model


def pt_invariant(T, model, types):
    P = pp()
    pr = []
    n = len(types)
    for a in types:
        for b in types:
            want = model[ukey(types, a, b)]
            got = T[a, b]
            if (want is None) != (got is None) or (want is not None and flat(got) != list(want)):
                pr.append(('value', 'T[%s,%s] reads %r, last assigned value of that unordered pair is %r' % (a, b, got, None if want is None else list(want))))
    if pr:
        return pr
    anyunset = any(v is None for v in model.values())
    try:
        T.check()
        raised = False
    except ValueError:
        raised = True
    except Exception as e:
        pr.append(('check', 'check() raised %s, not ValueError' % type(e).__name__))
        raised = anyunset
    if raised != anyunset:
        pr.append(('check', 'check() %s although %s' % ('raised' if raised else 'did not raise', 'some pair is unset' if anyunset else 'every pair is set')))
    modes = {'default': ({}, lambda i, j: i <= j), 'full': ({'full': True}, lambda i, j: True),
             'offdiag': ({'diagonal': False}, lambda i, j: i < j)}
    for nm, (kw, test) in modes.items():
        got = [(tuple(ij), tuple(tt), (None if v is None else flat(v))) for ij, tt, v in T.iterpairs(**kw)]
        want = []
        for i in range(n):
            for j in range(n):
                if test(i, j):
                    v = model[(i, j) if i <= j else (j, i)]
                    want.append(((i, j), (types[i], types[j]), None if v is None else list(v)))
        if got != want:
            pr.append(('iter', 'iterpairs(%s) yields %r, expected %r' % (nm, got[:4], want[:4])))
    # apply(inplace=False): original untouched, result is the mapped table, isolated from the original
    N = T.apply(apply_func, inplace=False)
    for a in types:
        for b in types:
            want = model[ukey(types, a, b)]
            got = T[a, b]
            if (want is None) != (got is None) or (want is not None and flat(got) != list(want)):
                pr.append(('apply', 'apply(inplace=False) changed the original at (%s,%s)' % (a, b)))
            nv = N[a, b]
            wn = None if want is None else list(want) + ['f']
            if (wn is None) != (nv is None) or (wn is not None and flat(nv) != wn):
                pr.append(('apply', 'apply(inplace=False) result at (%s,%s) is %r, expected %r' % (a, b, nv, wn)))
    # a function that hands its argument back: the derived table must still own its values
    N2 = T.apply(lambda v: v, inplace=False)
    if N2 is not T:
        for a in types:
            if N2[a, a] is not None:
                N2[a, a][0].append('pp')
                N2[a, a].append('po')
        for a in types:
            want = model[ukey(types, a, a)]
            if want is not None and flat(T[a, a]) != list(want):
                pr.append(('apply', 'mutating a value of the table returned by apply(lambda v: v, inplace=False) changed the original at (%s,%s)' % (a, a)))
    if N is T:
        pr.append(('apply', 'apply(inplace=False) returned the original table'))
    else:
        for a in types:
            if N[a, a] is not None:
                N[a, a][0].append('zz')
                N[a, a].append('zo')
        for a in types:
            want = model[ukey(types, a, a)]
            if want is not None and flat(T[a, a]) != list(want):
                pr.append(('apply', 'mutating the table returned by apply(inplace=False) changed the original'))
    return pr


def pt_canon(model):
    return tuple(sorted(model.items()))


def pt_build(types, hist):
    P = pp()
    T = P.PairTable(list(types), 'x')
    model = {(i, j): None for i in range(len(types)) for j in range(i, len(types))}
    for op in hist:
        model = pt_step(T, model, types, op)
    return T, model


def report(rec, table, types, hist, probs):
    for kind, msg in probs[:2]:
        rec.fail({'table': table, 'types': types, 'ops': hist}, '%s%s history %s: %s' % (table, types, hist, msg),
                 tags={'kind': kind, 'table': table, 'op': hist[-1][0] if hist else 'init'},
                 repro=("import mc.props.c14 as m, mc.core as c\nr=c.Rec('C14'); m.replay(r, %r); print([v['msg'] for v in r.viols])"
                        % ({'table': table, 'types': types, 'ops': hist},)))


def bfs_shard(rec, table, types, first, depth):
    """BFS with deduplication from the state reached by `first` (a list of ops)."""
    ops = pt_ops(types) if table == 'PairTable' else vt_ops(types)
    step, inv, enabled, build = (pt_step, pt_invariant, pt_enabled, pt_build) if table == 'PairTable' else (vt_step, vt_invariant, vt_enabled, vt_build)
    T, model = build(types, [])
    hist = []
    probs = None
    for op in first:
        if not enabled(model, types, op):
            return
        hist.append(op)
        try:
            model = step(T, model, types, op)
        except HarnessError:
            raise
        except Exception as e:
            probs = [('raises', '%r raised %s: %s' % (op, type(e).__name__, str(e)[:80]))]
            break
    # the shard owns the transition into its start state
    rec.trans()
    if probs is None:
        try:
            probs = inv(T, model, types)
        except HarnessError:
            raise
        except Exception as e:
            probs = [('raises', 'reading the table after %r raised %s: %s' % (hist, type(e).__name__, str(e)[:80]))]
    if probs:
        report(rec, table, types, hist, probs)
        return
    seen = {pt_canon(model)}
    rec.state()
    rec.outcome(core.digest(repr((table, types, pt_canon(model)))))
    frontier = deque([(hist, T, model)])
    while frontier:
        h, T, model = frontier.popleft()
        if len(h) >= depth:
            continue
        for op in ops:
            if not enabled(model, types, op):
                continue
            T2 = copy.deepcopy(T)
            try:
                m2 = step(T2, model, types, op)
                probs = inv(T2, m2, types)
            except HarnessError:
                raise
            except Exception as e:
                m2 = None
                probs = [('raises', '%r raised %s: %s' % (op, type(e).__name__, str(e)[:80]))]
            rec.trans()
            h2 = h + [op]
            if probs:
                report(rec, table, types, h2, probs)
                continue
            k = pt_canon(m2)
            if k not in seen:
                seen.add(k)
                rec.state()
                rec.trace()
                if any(v is not None for v in m2.values()):
                    rec.outcome(core.digest(repr((table, types, k))))
                frontier.append((h2, T2, m2))


# --------------------------------------------------------------------------
# ValueTable

def vt_ops(types):
    ops = []
    for t in types:
        ops.append(['set', t, 1])
        ops.append(['set', t, 2])
        ops.append(['set', t, 0])                         # zero is a legal value (e.g. a density), not "unset"
    for l in sublists(types):
        ops.append(['setlist', l, 3])
    ops.append(['setUnset', 9])
    ops.append(['setUnset', 0.0])
    for kind in ('list', 'tuple'):                        # a list / tuple VALUE whose length happens to equal the number of keys is one value for every key
        ops.append(['setlistval', list(types), kind])
        if len(types) > 2:
            ops.append(['setlistval', list(types[1:]), kind])
    ops.append(['setarr', types[0]])                      # an array is a legal value (its truth value / == None are not scalars)
    ops.append(['setarr', types[-1]])
    if isinstance(types[-1], str):
        ops.append(['set_npstr', types[-1], 7])
    return ops


ARR = 'ARR'                     # model marker for the array value below
ARRVAL = [1.5, 2.5, 0.0]


def listval(kind, n):
    v = [None if i == 0 else 10 + i for i in range(n)]          # the first element is None: per-key distribution would leave that key "unset"
    return v if kind == 'list' else tuple(v)


def veq(got, want):
    if isinstance(want, tuple) and len(want) == 3 and want[0] == 'LISTVAL':
        w = listval(want[1], want[2])
        return type(got) is type(w) and got == w
    if isinstance(want, str) and want == ARR:
        return isinstance(got, np.ndarray) and got.shape == (3,) and bool(np.all(got == np.array(ARRVAL)))
    if isinstance(got, np.ndarray):
        return False
    return (got is None) == (want is None) and got == want


def vt_enabled(model, types, op):
    return True


def vt_step(T, model, types, op):
    model = dict(model)
    if op[0] == 'set':
        T[op[1]] = op[2]
        model[types.index(op[1])] = op[2]
    elif op[0] == 'setlist':
        T[op[1]] = op[2]
        for t in op[1]:
            model[types.index(t)] = op[2]
    elif op[0] == 'setUnset':
        T.setUnset(op[1])
        for k in model:
            if model[k] is None:
                model[k] = op[1]
    elif op[0] == 'set_npstr':
        T[np.str_(op[1])] = op[2]
        model[types.index(op[1])] = op[2]
    elif op[0] == 'setlistval':
        T[op[1]] = listval(op[2], len(op[1]))
        for t in op[1]:
            model[types.index(t)] = ('LISTVAL', op[2], len(op[1]))
    elif op[0] == 'setarr':
        T[op[1]] = np.array(ARRVAL)
        model[types.index(op[1])] = ARR
    else:
        raise HarnessError('op %r' % (op,))
    return model


def vt_invariant(T, model, types):
    pr = []
    for i, t in enumerate(types):
        if not veq(T[t], model[i]):
            pr.append(('value', 'V[%s] reads %r, last assigned %r' % (t, T[t], model[i])))
    anyunset = any(v is None for v in model.values())
    try:
        T.check()
        raised = False
    except ValueError:
        raised = True
    except Exception as e:
        pr.append(('check', 'check() raised %s' % type(e).__name__))
        raised = anyunset
    if raised != anyunset:
        pr.append(('check', 'ValueTable.check() %s although %s' % ('raised' if raised else 'did not raise', 'some type is unset' if anyunset else 'all set')))
    got = [(i, t, v) for i, t, v in T]
    want = [(i, t, model[i]) for i, t in enumerate(types)]
    if len(got) != len(want) or any(g[0] != w[0] or g[1] != w[1] or not veq(g[2], w[2]) for g, w in zip(got, want)):
        pr.append(('iter', 'iteration yields %r, expected %r' % (got, want)))
    return pr


def vt_build(types, hist):
    P = pp()
    T = P.ValueTable(list(types), 'v')
    model = {i: None for i in range(len(types))}
    for op in hist:
        model = vt_step(T, model, types, op)
    return T, model


# --------------------------------------------------------------------------

# --------------------------------------------------------------------------
# real library objects as PairTable values (what System.potential / closure / omega hold)

def lib_value(kind):
    P = pp()
    if kind == 'FromArray':
        return P.omega.FromArray(np.array([1.0, 2.0, 3.0, 4.0]))
    if kind == 'FromArray+k':
        return P.omega.FromArray(np.array([1.0, 2.0, 3.0, 4.0]), np.array([0.1, 0.2, 0.3, 0.4]))
    if kind == 'Gaussian':
        return P.omega.Gaussian(sigma=1.0, length=10)
    if kind == 'PY':
        c = P.closure.PercusYevick(apply_hard_core=True)
        c.potential = np.array([5.0, 0.5, 0.0])
        c.sigma = 1.0
        return c
    if kind == 'HNC':
        c = P.closure.HyperNettedChain()
        c.potential = np.array([5.0, 0.5, 0.0])
        return c
    if kind == 'LJ':
        return P.potential.LennardJones(epsilon=1.0, sigma=1.0, rcut=2.5, shift=True)
    if kind == 'EXP':
        return P.potential.Exponential(epsilon=1.0, alpha=0.5, sigma=1.0)
    if kind == 'ndarray':
        return np.array([1.0, 2.0, 3.0])
    if kind == 'dict':
        return {'a': [1, 2], 'b': np.array([1.0])}
    raise KeyError(kind)


LIBKINDS = ['FromArray', 'FromArray+k', 'Gaussian', 'PY', 'HNC', 'LJ', 'EXP', 'ndarray', 'dict']


def deep_state(o, depth=0):
    """Canonical picture of everything reachable through attributes / items (arrays by content)."""
    if isinstance(o, np.ndarray):
        return ('nd', o.shape, o.tobytes())
    if isinstance(o, (list, tuple)):
        return (type(o).__name__, tuple(deep_state(x, depth + 1) for x in o))
    if isinstance(o, dict):
        return ('dict', tuple(sorted((repr(k), deep_state(v, depth + 1)) for k, v in o.items())))
    if callable(o) and not hasattr(o, '__dict__'):
        return ('callable',)
    if hasattr(o, '__dict__') and depth < 4 and not isinstance(o, type) and not callable(o):
        return (type(o).__name__, tuple(sorted((k, deep_state(v, depth + 1)) for k, v in vars(o).items())))
    if callable(o):
        return ('callable',)
    return ('atom', repr(o))


def deep_mutate(o):
    """Change, IN PLACE, every mutable thing one level below the object (and the object itself if it is a container);
    returns the number of things changed.  Attribute re-binding is used only for plain numbers."""
    n = 0
    if isinstance(o, np.ndarray):
        o *= -0.5
        return 1
    if isinstance(o, dict):
        for v in o.values():
            n += deep_mutate(v)
        o['new'] = 1
        return n + 1
    if isinstance(o, list):
        o.append('m')
        return 1
    if hasattr(o, '__dict__'):
        for k, v in list(vars(o).items()):
            if isinstance(v, (np.ndarray, list, dict)):
                n += deep_mutate(v)
            elif isinstance(v, (int, float)) and not isinstance(v, bool):
                setattr(o, k, v * 1.5 + 1)
                n += 1
    return n


def case_libvalues(rec, c):
    """One library object assigned to several pairs by the given form; then (i) the caller changes its own object in
    place, (ii) one stored value is changed in place: no other pair, and not the caller's object, may follow."""
    P = pp()
    types, kind, form, victim = list(c['types']), c['value'], c['form'], c['victim']
    T = P.PairTable(list(types), 'v')
    obj = lib_value(kind)
    rec.state()
    pairs = [(a, b) for i, a in enumerate(types) for b in types[i:]]
    try:
        if form == 'bulk':
            T[list(types), list(types)] = obj
        elif form == 'setUnset':
            T.setUnset(obj)
        elif form == 'single':                      # the same object assigned pair by pair
            for a, b in pairs:
                T[a, b] = obj
        elif form == 'single-rev':
            for a, b in reversed(pairs):
                T[b, a] = obj
        elif form == 'rows':
            for a in types:
                T[a, list(types)] = obj
        elif form == 'mixed':                       # first pair singly, the rest by setUnset
            T[types[0], types[-1]] = obj
            T.setUnset(obj)
        else:
            raise HarnessError(form)
        rec.trans()
        pristine = deep_state(lib_value(kind))
        # (i) the caller's object changes afterwards
        if deep_mutate(obj) == 0:
            raise HarnessError('nothing mutable in %s' % kind)
        for a, b in pairs:
            if deep_state(T[a, b]) != pristine:
                rec.fail(c, 'PairTable value (%s) stored at (%s,%s) by %s assignment changed when the caller modified its own object afterwards' % (kind, a, b, form),
                         {'table': 'PairTable', 'kind': 'isolation', 'value': kind})
                return
        callers = deep_state(obj)
        # (ii) one stored value changes in place
        va, vb = pairs[victim % len(pairs)]
        deep_mutate(T[va, vb])
        rec.trans()
        changed = deep_state(T[va, vb])
        if deep_state(T[vb, va]) != changed:
            rec.fail(c, 'PairTable (%s): (%s,%s) and (%s,%s) are different objects' % (kind, va, vb, vb, va), {'table': 'PairTable', 'kind': 'symmetry', 'value': kind})
            return
        for a, b in pairs:
            if (a, b) == (va, vb):
                continue
            if deep_state(T[a, b]) != pristine:
                rec.fail(c, 'PairTable value (%s): after %s assignment of ONE object to several pairs, changing the value stored at (%s,%s) in place (arrays / containers one level below '
                         'the object) also changed the value stored at (%s,%s) - the copies are not independent' % (kind, form, va, vb, a, b),
                         {'table': 'PairTable', 'kind': 'isolation', 'value': kind})
                return
        if deep_state(obj) != callers:
            rec.fail(c, 'PairTable value (%s): changing the stored value at (%s,%s) changed the caller\'s object' % (kind, va, vb), {'table': 'PairTable', 'kind': 'isolation', 'value': kind})
            return
    except HarnessError:
        raise
    except Exception as e:
        rec.fail(c, 'PairTable with %s values (%s assignment) raised %s: %s' % (kind, form, type(e).__name__, str(e)[:80]), {'table': 'PairTable', 'kind': 'raises', 'value': kind})
        return
    rec.trace()
    rec.outcome(core.digest([types, kind, form, victim]))


LIBFORMS = ['bulk', 'setUnset', 'single', 'single-rev', 'rows', 'mixed']


def replay(rec, case):
    if case.get('kind') == 'libvalues':
        with warnings.catch_warnings():
            warnings.simplefilter('ignore')
            case_libvalues(rec, case)
        return
    with warnings.catch_warnings():
        warnings.simplefilter('ignore')
        table, types, ops = case['table'], list(case['types']), case['ops']
        step, inv, enabled, build = (pt_step, pt_invariant, pt_enabled, pt_build) if table == 'PairTable' else (vt_step, vt_invariant, vt_enabled, vt_build)
        T, model = build(types, [])
        rec.state()
        hist = []
        for op in ops:
            if not enabled(model, types, op):
                rec.count('disabled')
                return
            hist.append(op)
            try:
                model = step(T, model, types, op)
                probs = inv(T, model, types)
            except HarnessError:
                raise
            except Exception as e:
                probs = [('raises', '%r raised %s: %s' % (op, type(e).__name__, str(e)[:80]))]
            rec.trans()
            if probs:
                report(rec, table, types, hist, probs)
                return
        rec.trace()
        rec.outcome(core.digest(repr((table, types, pt_canon(model)))))


def _worker(item):
    table, types, first, depth = item
    rec = Rec('C14')
    with warnings.catch_warnings():
        warnings.simplefilter('ignore')
        bfs_shard(rec, table, types, first, depth)
    return rec.to_dict()


ALLTYPES = ['A', 'B', 'C', 'D']
# other legal label sets: integers (0 is falsy; label != position) and multi-character names (a str key must
# not be iterated character by character); explored two levels shallower than the letters
LABELSETS = {'letters': ALLTYPES, 'ints': [1, 0, 3, 2], 'names': ['poly', 'solv', 'ion', 'np'],
             'nested-names': ['C', 'CH2', 'PS', 'PS-b-P2VP']}      # ints: labels that are not their own positions (and 0 is falsy); names contained in one another


def run(rec, tier, seed):
    depths = {'quick': {1: 6, 2: 5, 3: 4, 4: 3}, 'thorough': {1: 7, 2: 6, 3: 5, 4: 4}}[tier]
    items = []
    for lname, labels in LABELSETS.items():
        for n in (1, 2, 3, 4):
            types = labels[:n]
            dep = depths[n] if lname == 'letters' else max(1, depths[n] - 2)
            if lname != 'letters' and n == 4 and tier == 'quick':
                continue
            items.append(('PairTable', types, [], 0))            # initial state itself
            for op in pt_ops(types):
                items.append(('PairTable', types, [op], dep))
            items.append(('ValueTable', types, [], 0))
            for op in vt_ops(types):
                items.append(('ValueTable', types, [op], dep + 1))
    core.pmap(_worker, items, rec, chunksize=2)
    with warnings.catch_warnings():
        warnings.simplefilter('ignore')
        for labels in (['A', 'B'], ['A', 'B', 'C'], [1, 0, 3]):
            npairs = len(labels) * (len(labels) + 1) // 2
            for kind, form, victim in itertools.product(LIBKINDS, LIBFORMS, range(npairs)):
                case_libvalues(rec, {'kind': 'libvalues', 'types': labels, 'value': kind, 'form': form, 'victim': victim})
    rec.note('library_values', {'kinds': LIBKINDS, 'assignment_forms': LIBFORMS, 'victims': 'every pair', 'type_lists': [['A', 'B'], ['A', 'B', 'C'], [1, 0, 3]]})
    rec.note('bounds', {'depth_by_number_of_types': depths, 'ValueTable_depth': 'PairTable depth + 1', 'label_sets': LABELSETS,
                        'depth_for_ints_and_names': 'letters depth - 2'})
    rec.note('alphabets', {'PairTable_ops_by_n': {n: len(pt_ops(ALLTYPES[:n])) for n in (1, 2, 3, 4)},
                           'ValueTable_ops_by_n': {n: len(vt_ops(ALLTYPES[:n])) for n in (1, 2, 3, 4)}})
    rec.note('fixpoint', False)
    rec.sample({'table': 'PairTable', 'types': ['A', 'B'], 'ops': [['setlist', ['A', 'B'], ['A', 'B'], [3]], ['mutate', 'B', 'A'], ['setUnset', [9]]]})
    rec.sample({'table': 'ValueTable', 'types': ['A', 'B', 'C'], 'ops': [['setlist', ['A', 'C'], 3], ['setUnset', 9], ['set', 'A', 2]]})
