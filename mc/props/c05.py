"""C05 - every calculate.* quantity equals its definition and the cross
identities hold.  E1: rank x data alphabet x space-flag state x density /
diameter / kT alphabet x every function x every flag value x every ordered
pair of types, on hand-populated and on solved PRISM objects.  Every call is
made on a fresh deep copy (so C05 is independent of C06)."""
from __future__ import annotations

import copy
import itertools
import math
import warnings

import numpy as np

from mc import core, build
from mc.core import Rec, HarnessError
from mc.refmodel import basic as ref
from mc.refmodel import calc as rc

META = {
    'rule': ('states: PRISM objects built (rank x data set x 8 space-flag states x parameter variant, plus solved systems); transitions: one real '
             'calculate.* call on a fresh deep copy compared with the loop-based reference for every ordered pair of types; traces: objects for '
             'which all 13 call variants were decided; non-trivial: the compared quantity is not identically zero; distinct = digest of (object, call, values)'),
    'assumptions': ['Domain transforms relate the real- and Fourier-space versions of the hand-populated data (C07/C08)',
                    'spinodal_condition(extrapolate=False): the extrapolated or the lowest-k value is accepted (the property fixes only the k->0 meaning)'],
}

NAMES = ['x', 'm', 'b', 'q']              # deliberately not in alphabetical order
RHO = [0.11, 0.23, 0.07, 0.31]
DIAM = {'equal': [1.0, 1.0, 1.0, 1.0], 'unequal': [1.0, 1.4, 0.8, 1.2], 'unequal2': [0.7, 0.7, 1.9, 1.05],
        # nearly equal diameters (the volume ratio differs from 1 by 1e-5: not 'equal') and diameters in a small length unit
        'near': [1.0, 1.000003, 1.0000015, 0.999998], 'tiny': [2e-3, 3e-3, 2.5e-3, 1e-3]}
CALLS = [('pair_correlation', None), ('pmf', None), ('structure_factor', True), ('structure_factor', False),
         ('second_virial', True), ('second_virial', False), ('chi', True), ('chi', False),
         ('spinodal_condition', True), ('spinodal_condition', False), ('solvation_potential', 'HNC'), ('solvation_potential', 'PY')]
ARRS = ('totalCorr', 'directCorr', 'omega')


def base_spec(n, diam, kT, L=32, dr=0.2):
    types = NAMES[:n]
    spec = {'types': types, 'kT': kT, 'domain': {'length': L, 'dr': dr},
            'density': {t: RHO[i] for i, t in enumerate(types)},
            'diameter': {t: DIAM[diam][i] for i, t in enumerate(types)}, 'pairs': {}}
    for a, b in build.pairs_of(types):
        spec['pairs'][build.pair_key(types, a, b)] = {'closure': ['PY', False], 'potential': ['HS', {}],
                                                      'omega': ['SingleSite' if a == b else 'NoIntra', {}]}
    return spec


def dataset(name, n, k):
    """Fourier-space data (L,n,n): Hk, Ck and unscaled omega, smooth and symmetric."""
    L = len(k)
    H = np.zeros((L, n, n))
    C = np.zeros((L, n, n))
    W = np.zeros((L, n, n))
    for i in range(n):
        for j in range(i, n):
            if name == 'A':
                h = -(1.0 + 0.3 * i + 0.2 * j) * np.exp(-k * k / (4.0 + i + j)) * (1 + 0.1 * np.cos(k))
                c = -(2.0 + 0.5 * i - 0.3 * j) * np.exp(-k * k / (3.0 + j)) + 0.2 * (i + 1) / (1 + k * k)
                w = (1.0 + 3.0 / (1 + k * k * (1 + 0.5 * i))) if i == j else 0.5 / (1 + k * k * (1 + 0.2 * (i + j)))
            elif name == 'B':
                h = (0.8 - 0.2 * i + 0.1 * j) * np.exp(-k * k / 6.0) * np.cos(1.3 * k + 0.2 * i) - 0.4 / (1 + k ** 4)
                c = (1.5 - 0.4 * j) * np.sin(0.7 * k + 0.3 * i) / (1 + k * k) - 1.1 * np.exp(-k * k / (2.0 + i))
                w = (1.0 + 5.0 * np.exp(-k * k * (0.3 + 0.1 * i))) if i == j else 0.0 * k
            elif name == 'small':
                h = -(0.3 + 0.05 * i + 0.02 * j) * np.exp(-k * k / (4.0 + i + j))
                c = -(0.25 + 0.04 * i - 0.03 * j) * np.exp(-k * k / (3.0 + j))
                w = (1.0 + 1.0 / (1 + k * k)) if i == j else 0.2 / (1 + k * k)
            else:
                raise KeyError(name)
            H[:, i, j] = H[:, j, i] = h
            C[:, i, j] = C[:, j, i] = c
            W[:, i, j] = W[:, j, i] = w
    return H, C, W


def populate(spec, Hk, Ck, Ok, flags):
    import pyPRISM
    P = build.create_prism(spec)
    dom = P.sys.domain
    types = spec['types']
    for nm, arr, fl in zip(ARRS, (Hk, Ck, Ok), flags):
        M = pyPRISM.MatrixArray(length=dom.length, rank=len(types), data=np.array(arr, copy=True), space=pyPRISM.Space.Fourier, types=types)
        if fl == 'R':
            dom.MatrixArray_to_real(M)
        setattr(P, nm, M)
    return P


def to_real_all(dom, Ak):
    out = np.zeros_like(Ak)
    n = Ak.shape[1]
    for i in range(n):
        for j in range(n):
            out[:, i, j] = dom.to_real(Ak[:, i, j])
    return out


def do_call(P, name, arg):
    import pyPRISM
    f = getattr(pyPRISM.calculate, name)
    with warnings.catch_warnings(), np.errstate(all='ignore'):
        warnings.simplefilter('ignore')
        if name in ('pair_correlation', 'pmf'):
            return f(P)
        if name == 'structure_factor':
            return f(P, normalize=arg)
        if name == 'solvation_potential':
            return f(P, closure=arg)
        return f(P, extrapolate=arg)


def close(a, b, tol, scale=None):
    a = np.asarray(a, dtype=float)
    b = np.asarray(b, dtype=float)
    if a.shape != b.shape:
        return False, float('inf')
    fin = np.isfinite(b)
    if not np.array_equal(np.isfinite(a), fin):
        return False, float('inf')
    if not fin.any():
        return True, 0.0
    sc = scale if scale is not None else max(1e-300, float(np.max(np.abs(b[fin]))))
    err = float(np.max(np.abs(a[fin] - b[fin]))) / sc
    return err <= tol, err


def check_object(rec, case, P, spec, Hk, Ck, Ok, tol=1e-10, solved=False):
    """All call variants on fresh deep copies of P against the reference built from (Hk, Ck, Ok) and the spec."""
    import pyPRISM
    types = spec['types']
    n = len(types)
    dom = P.sys.domain
    k = np.array(dom.k)
    kT = spec['kT']
    site, pair = ref.site_pair_matrices(types, spec['density'])
    rho_total = math.fsum(spec['density'][t] for t in types)
    Hr = to_real_all(dom, Hk)
    decided = 0

    def fail(call, msg, kind='value'):
        rec.fail(dict(case, call=[call[0], call[1]]), '%s(%s) on %s: %s' % (call[0], '' if call[1] is None else call[1], describe(case), msg),
                 {'func': call[0], 'kind': kind, 'rank': n})

    for call in CALLS:
        name, arg = call
        Q = copy.deepcopy(P)
        rec.trans()
        try:
            out = do_call(Q, name, arg)
        except AssertionError as e:
            if n == 1 and name in ('chi', 'spinodal_condition', 'solvation_potential'):
                continue            # documented: only defined for multicomponent systems
            fail(call, 'raised AssertionError: %s' % str(e)[:80], 'raises')
            continue
        except Exception as e:
            fail(call, 'raised %s: %s' % (type(e).__name__, str(e)[:100]), 'raises')
            continue
        if n == 1 and name in ('chi', 'spinodal_condition', 'solvation_potential'):
            continue
        decided += 1
        if name in ('pair_correlation', 'pmf', 'structure_factor', 'solvation_potential'):
            if not isinstance(out, pyPRISM.MatrixArray):
                fail(call, 'returned %s' % type(out).__name__, 'type')
                continue
            want_space = pyPRISM.Space.Fourier if name == 'structure_factor' else pyPRISM.Space.Real
            if out.space != want_space:
                fail(call, 'result is flagged %s' % out.space, 'space')
            if name == 'pair_correlation':
                want = Hr + 1.0
                sc = None
            elif name == 'pmf':
                g = Hr + 1.0
                with np.errstate(all='ignore'):
                    want = np.where(g > 1e-6, -kT * np.log(np.where(g > 1e-6, g, 1.0)), np.nan)
                got = np.where(g > 1e-6, out.data, np.nan)
                ok, err = close(got, want, max(tol, 1e-9) * 10)
                if not ok:
                    fail(call, 'differs from -kT ln(h+1) where g > 0 by %.3g (relative)' % err)
                symmetric_check(rec, fail, call, out, types)
                rec.outcome(core.digest([describe(case), call, np.nan_to_num(got[:8])], 7))
                continue
            elif name == 'structure_factor':
                want = rc.structure_factor(Hk, Ok, site, pair, arg)
            else:
                S = rc.structure_factor(Hk, Ok, site, pair, True)
                X = rc.csc(Ck, S)
                with np.errstate(all='ignore'):
                    Xk = -kT * X if arg == 'HNC' else -kT * np.log(1.0 + X)
                if not np.all(np.isfinite(Xk)):
                    rec.count('psi_PY_not_finite_skipped')
                    continue
                want = to_real_all(dom, Xk)
            ok, err = close(out.data, want, tol * 10 if name == 'solvation_potential' else tol)
            if not ok:
                fail(call, 'differs from its definition by %.3g (relative to the largest value)' % err)
            symmetric_check(rec, fail, call, out, types)
            if np.any(want != 0):
                rec.outcome(core.digest([describe(case), call, out.data[:6]], 7))
            continue
        # PairTable results
        if not isinstance(out, pyPRISM.PairTable):
            fail(call, 'returned %s' % type(out).__name__, 'type')
            continue
        vals = []
        for i, a in enumerate(types):
            for j, b in enumerate(types):
                got = out[a, b]
                if name == 'second_virial':
                    want = rc.second_virial(Hk, k, arg)[i, j]
                    sc = max(1e-300, float(np.max(np.abs(Hk[:3]))))
                    if got is None or not abs(float(got) - want) <= max(tol, 1e-9) * sc:
                        fail(call, 'B2[%s,%s] = %r, -h(k->0)/2 = %r' % (a, b, got, want))
                    vals.append(float(got) if got is not None else np.nan)
                    continue
                if i == j:
                    if got is not None:
                        fail(call, 'entry [%s,%s] of a pairwise quantity is %r, expected None' % (a, b, got))
                    continue
                lo, hi = (i, j) if i < j else (j, i)
                if name == 'spinodal_condition':
                    curve = rc.spinodal_curve(Ck, Ok, lo, hi)
                    ext = rc.lagrange0(k, curve)
                    sc = max(1.0, float(np.max(np.abs(curve[:3]))))
                    accept = [ext] if arg else [ext, float(curve[0])]
                    if got is None or not any(abs(float(np.asarray(got).ravel()[0]) - w) <= max(tol, 1e-9) * sc * 10 for w in accept) or np.size(got) != 1:
                        fail(call, 'Lambda[%s,%s] = %r, k->0 limit of det(I - Omega C) of that 2x2 block = %r' % (a, b, got, ext))
                    vals.append(float(np.asarray(got).ravel()[0]) if got is not None else np.nan)
                else:       # chi
                    if DIAM_OF(case) == 'equal' or solved_equal(spec, types[lo], types[hi]):
                        curve = rc.chi_equal_volume(Ck, rho_total, lo, hi)
                        want = rc.lagrange0(k, curve) if arg else curve
                        sc = max(1e-300, float(np.max(np.abs(curve))))
                        if got is None:
                            fail(call, 'chi[%s,%s] is None' % (a, b))
                        else:
                            ok, err = close(np.atleast_1d(np.asarray(got, dtype=float)), np.atleast_1d(want), max(tol, 1e-9) * 10, scale=sc)
                            if not ok:
                                fail(call, 'chi[%s,%s] differs from (rho/2)(C_aa + C_bb - 2 C_ab) by %.3g (relative)' % (a, b, err))
                    if got is not None:
                        vals.append(float(np.atleast_1d(np.asarray(got, dtype=float))[0]))
        # (a,b) and (b,a) give the same
        for a, b in itertools.permutations(types, 2):
            x, y = out[a, b], out[b, a]
            if (x is None) != (y is None) or (x is not None and not np.array_equal(np.asarray(x), np.asarray(y))):
                fail(call, 'result for (%s,%s) differs from (%s,%s)' % (a, b, b, a), 'symmetry')
                break
        if vals and any(v != 0 for v in vals):
            rec.outcome(core.digest([describe(case), call, np.array(vals)], 7))
    return decided


def DIAM_OF(case):
    return case.get('diam')


def solved_equal(spec, a, b):
    return spec['diameter'][a] == spec['diameter'][b]


def symmetric_check(rec, fail, call, out, types):
    if not np.array_equal(out.data, np.transpose(out.data, (0, 2, 1)), equal_nan=True):
        fail(call, 'returned pair functions are not symmetric in the two type labels', 'symmetry')
    for a, b in itertools.permutations(types, 2):
        if not np.array_equal(out[a, b], out[b, a], equal_nan=True):
            fail(call, 'out[%s,%s] differs from out[%s,%s]' % (a, b, b, a), 'symmetry')
            break


def describe(case):
    if case['kind'] == 'pop':
        return 'hand-populated rank-%d object (data %s, flags %s, %s diameters, kT=%g)' % (case['rank'], case['data'], ''.join(case['flags']), case['diam'], case['kT'])
    if case['kind'] == 'chiw':
        return 'rank-%d object for chi weights (pair %s, %s diameters)' % (case['rank'], case['pair'], case['diam'])
    return 'solved system %s' % case['system']


def case_pop(rec, c):
    g = c.get('grid') or [32, 0.2]
    spec = base_spec(c['rank'], c['diam'], c['kT'], L=g[0], dr=g[1])
    dom = build.make_domain(spec['domain'])
    if not build.domain_ok(dom):
        rec.count('skipped_preconditions')
        return
    k = np.array(dom.k)
    Hk, Ck, Wk = dataset(c['data'], c['rank'], k)
    site, pair = ref.site_pair_matrices(spec['types'], spec['density'])
    Ok = Wk * site
    P = populate(spec, Hk, Ck, Ok, c['flags'])
    rec.state()
    check_object(rec, c, P, spec, Hk, Ck, Ok)
    rec.trace()


def case_chiw(rec, c):
    """chi is linear in the direct correlations with weights in the ratio 1/R : R : -2; for R = 1 the common
    factor is rho/2; entries of other types do not enter."""
    import pyPRISM
    n = c['rank']
    spec = base_spec(n, c['diam'], 1.3)
    types = spec['types']
    i, j = c['pair']
    dom = build.make_domain(spec['domain'])
    k = np.array(dom.k)
    L = len(k)
    site, pair = ref.site_pair_matrices(types, spec['density'])
    Hk, Cgen, Wk = dataset('A', n, k)
    Ok = Wk * site
    rec.state()

    def chi_of(Ck, extrap):
        P = populate(spec, Hk, Ck, Ok, c['flags'])
        rec.trans()
        with warnings.catch_warnings():
            warnings.simplefilter('ignore')
            out = pyPRISM.calculate.chi(P, extrapolate=extrap)
        return out[types[i], types[j]], out[types[j], types[i]]

    def unit(p, q):
        C = np.zeros((L, n, n))
        C[:, p, q] = 1.0
        C[:, q, p] = 1.0
        return C

    tg = {'func': 'chi', 'kind': 'weights', 'rank': n}
    try:
        w = {}
        for (p, q) in [(i, i), (j, j), (i, j)] + [(m, m) for m in range(n) if m not in (i, j)] + [(i, m) for m in range(n) if m not in (i, j)]:
            a, b = chi_of(unit(p, q), False)
            a = np.asarray(a, dtype=float)
            if not np.array_equal(a, np.asarray(b, dtype=float)):
                rec.fail(c, 'chi[%s,%s] != chi[%s,%s]' % (types[i], types[j], types[j], types[i]), dict(tg, kind='symmetry'))
            if a.shape != (L,) or np.max(np.abs(a - a[0])) > 1e-13 * max(1.0, abs(a[0])):
                rec.fail(c, 'chi of a k-independent unit direct correlation is not k-independent', tg)
                return
            w[(p, q)] = float(a[0])
        va = math.pi * spec['diameter'][types[i]] ** 3 / 6.0
        vb = math.pi * spec['diameter'][types[j]] ** 3 / 6.0
        R = va / vb
        waa, wbb, wab = w[(i, i)], w[(j, j)], w[(i, j)]
        common = -wab / 2.0
        if not (abs(waa * R - common) <= 1e-12 * abs(common) and abs(wbb / R - common) <= 1e-12 * abs(common)) or common == 0:
            rec.fail(c, 'chi weights for pair (%s,%s), R=%.4g: w_aa=%r w_bb=%r w_ab=%r are not in the ratio 1/R : R : -2' % (types[i], types[j], R, waa, wbb, wab), tg)
        for key, val in w.items():
            if key not in ((i, i), (j, j), (i, j)) and val != 0.0:
                rec.fail(c, 'chi[%s,%s] depends on the direct correlation of pair %s (weight %r)' % (types[i], types[j], key, val), tg)
        rho_total = math.fsum(spec['density'][t] for t in types)
        if R == 1.0 and abs(common - rho_total / 2.0) > 1e-12 * rho_total:
            rec.fail(c, 'equal site volumes: chi prefactor is %r, expected rho/2 = %r' % (common, rho_total / 2.0), tg)
        # linearity on general data, both extrapolate values
        a, _ = chi_of(Cgen, False)
        lin = waa * Cgen[:, i, i] + wbb * Cgen[:, j, j] + wab * Cgen[:, i, j]
        ok, err = close(np.asarray(a, dtype=float), lin, 1e-11)
        if not ok:
            rec.fail(c, 'chi(k) is not the linear combination of the direct correlations with the unit-response weights (off by %.3g)' % err, tg)
        a0, _ = chi_of(Cgen, True)
        want0 = rc.lagrange0(k, lin)
        if abs(float(a0) - want0) > 1e-9 * max(1e-300, float(np.max(np.abs(lin)))):
            rec.fail(c, 'extrapolated chi = %r, quadratic through the three lowest-k points of chi(k) at k=0 = %r' % (float(a0), want0), dict(tg, kind='extrapolation'))
        rec.outcome(core.digest([n, c['diam'], c['pair'], c['flags'], waa, wbb, wab]))
    except Exception as e:
        rec.fail(c, 'chi raised %s: %s' % (type(e).__name__, str(e)[:100]), dict(tg, kind='raises'))
    rec.trace()


SOLVED = {}


def solved_specs():
    if SOLVED:
        return SOLVED
    from mc.props import c06
    SOLVED['bin'] = c06.SYSTEMS['bin']
    SOLVED['ter'] = c06.SYSTEMS['ter']
    SOLVED['mono'] = {'types': ['A'], 'kT': 1.0, 'domain': {'length': 128, 'dr': 0.1}, 'density': {'A': 0.6}, 'diameter': {'A': 1.0},
                      'pairs': {'A|A': {'closure': ['PY', False], 'potential': ['HS', {}], 'omega': ['Gaussian', {'sigma': 1.0, 'length': 5}]}}}
    q = base_spec(4, 'unequal', 1.2, L=64, dr=0.15)
    q['density'] = {t: v for t, v in zip(q['types'], [0.12, 0.08, 0.15, 0.05])}
    q['pairs']['x|x']['omega'] = ['Gaussian', {'sigma': 1.0, 'length': 4}]
    q['pairs']['m|q'] = {'closure': ['HNC', False], 'potential': ['HCLJ', {'epsilon': 0.1}], 'omega': ['NoIntra', {}]}
    q['pairs']['b|b'] = {'closure': ['PY', True], 'potential': ['HS', {}], 'omega': ['SingleSite', {}]}
    SOLVED['quat'] = q
    return SOLVED


def case_solved(rec, c):
    import pyPRISM
    spec = solved_specs()[c['system']]
    dom = build.make_domain(spec['domain'])
    if not build.domain_ok(dom):
        rec.count('skipped_preconditions')
        return
    rec.count('solve_attempted')
    got = build.solve_portfolio(spec)
    if not got:
        rec.count('solve_not_converged')
        return
    rt, P, res = got[0]
    res2 = build.polish(P, res.x)
    if res2 is None:
        rec.count('solve_not_converged')
        return
    rec.count('solve_converged')
    rec.state()
    S = pyPRISM.Space
    arrs = {}
    for nm in ARRS:
        M = getattr(P, nm).get_copy()
        if M.space == S.Real:
            P.sys.domain.MatrixArray_to_fourier(M)
        arrs[nm] = M.data
    Hk, Ck, Ok = arrs['totalCorr'], arrs['directCorr'], arrs['omega']
    case = dict(c, diam=None)
    check_object(rec, case, P, spec, Hk, Ck, Ok, tol=1e-9, solved=True)
    # self-consistent: unnormalised S(k) = (I - Omega C)^-1 Omega
    rec.trans()
    with warnings.catch_warnings():
        warnings.simplefilter('ignore')
        Sk = pyPRISM.calculate.structure_factor(copy.deepcopy(P), normalize=False)
    want = rc.prism_structure(Ck, Ok)
    ok, err = close(Sk.data, want, 1e-7)
    if not ok:
        rec.fail(c, 'solved system %s: unnormalised S(k) differs from (I - Omega C)^-1 Omega by %.3g' % (c['system'], err),
                 {'func': 'structure_factor', 'kind': 'self-consistency', 'rank': len(spec['types'])})
    rec.trace()


GDESIGN = [1e-300, 1e-30, 1e-12, 3e-9, 1e-8, 5e-8, 1e-7, 9e-7, 1e-6, 1e-5, 1e-3, 0.25, 1.0, 1.0 + 1e-9, 3.0, 40.0]


def case_gdesign(rec, c):
    """pair_correlation = h + 1 and pmf = -kT ln g on a real-space total correlation that the caller populated with designed
    values of g from 1e-300 (deep inside a soft repulsive flank) to 40: every element, wherever g > 0, to rounding."""
    import pyPRISM
    n, kT = c['rank'], c['kT']
    spec = base_spec(n, 'equal', kT)
    types = spec['types']
    P = build.create_prism(spec)
    L = P.sys.domain.length
    Hr = np.zeros((L, n, n))
    for i in range(n):
        for j in range(i, n):
            g = np.array([GDESIGN[(m + 3 * i + 5 * j) % len(GDESIGN)] for m in range(L)])
            Hr[:, i, j] = Hr[:, j, i] = g - 1.0
    P.totalCorr = pyPRISM.MatrixArray(length=L, rank=n, data=Hr.copy(), space=pyPRISM.Space.Real, types=types)
    rec.state()
    gref = Hr + 1.0                       # the same floating-point operation the definition prescribes
    for name in ('pair_correlation', 'pmf'):
        Q = copy.deepcopy(P)
        rec.trans()
        try:
            out = do_call(Q, name, None)
        except Exception as e:
            rec.fail(dict(c, call=name), '%s on a real-space total correlation populated by the caller raised %s: %s' % (name, type(e).__name__, str(e)[:80]),
                     {'func': name, 'kind': 'raises', 'rank': n})
            continue
        got = np.asarray(out.data, dtype=float)
        if name == 'pair_correlation':
            want = gref
            bad = got != want
        else:
            pos = gref > 0
            with np.errstate(all='ignore'):
                want = np.where(pos, -kT * np.log(np.where(pos, gref, 1.0)), np.nan)
            bad = pos & ~(np.abs(got - want) <= 8 * np.finfo(float).eps * np.abs(want) + 1e-300)
        if got.shape != want.shape or np.any(bad):
            idx = tuple(int(v) for v in np.argwhere(bad)[0]) if got.shape == want.shape else None
            rec.fail(dict(c, call=name), '%s, rank %d, kT=%g: at an element where g = h+1 = %r the result is %r, the definition gives %r'
                     % (name, n, kT, float(gref[idx]) if idx else None, float(got[idx]) if idx else None, float(want[idx]) if idx else None),
                     {'func': name, 'kind': 'value', 'rank': n},
                     repro=("import numpy as np, pyPRISM\n# populate totalCorr (real space) with g - 1 for g = 1e-12 ... and call pyPRISM.calculate.%s(PRISM)\n"
                            "# pmf must be -kT*np.log(g) = %r at g = %r") % (name, float(want[idx]) if idx else None, float(gref[idx]) if idx else None))
        rec.outcome(core.digest([n, kT, name, np.nan_to_num(got[:16, 0, 0])], 9))
    rec.trace()


def replay(rec, case):
    with warnings.catch_warnings(), np.errstate(all='ignore'):
        warnings.simplefilter('ignore')
        {'pop': case_pop, 'chiw': case_chiw, 'solved': case_solved, 'gdesign': case_gdesign}[case['kind']](rec, case)


def _worker(chunk):
    rec = Rec('C05')
    for c in chunk:
        replay(rec, c)
    return rec.to_dict()


def run(rec, tier, seed):
    quick = tier == 'quick'
    ranks = [1, 2, 3, 4]
    datas = ['A', 'B', 'small']
    flagstates = [list(f) for f in itertools.product('FR', repeat=3)]
    cases = []
    for n, d, fl, diam, kT in itertools.product(ranks, datas, flagstates, ['equal', 'unequal'], [1.0, 1.7]):
        cases.append({'kind': 'pop', 'rank': n, 'data': d, 'flags': fl, 'diam': diam, 'kT': kT})
    if not quick:
        # other grids (odd / prime lengths, other spacings), a third diameter set, a low temperature
        for n, d, fl, diam, kT, grid in itertools.product(ranks, datas, flagstates, ['unequal', 'unequal2'], [0.6, 1.7], [[45, 0.13], [31, 0.25], [64, 0.1]]):
            cases.append({'kind': 'pop', 'rank': n, 'data': d, 'flags': fl, 'diam': diam, 'kT': kT, 'grid': grid})
    for n in [r for r in ranks if r >= 2]:
        for i, j in itertools.combinations(range(n), 2):
            for diam in ('equal', 'unequal'):
                for fl in (['F', 'F', 'F'], ['R', 'R', 'F']):
                    cases.append({'kind': 'chiw', 'rank': n, 'pair': [i, j], 'diam': diam, 'flags': fl})
            for diam in ('near', 'tiny'):
                cases.append({'kind': 'chiw', 'rank': n, 'pair': [i, j], 'diam': diam, 'flags': ['F', 'F', 'F']})
    for n, d, diam in itertools.product([2, 3], datas, ['near', 'tiny']):
        cases.append({'kind': 'pop', 'rank': n, 'data': d, 'flags': ['F', 'F', 'F'], 'diam': diam, 'kT': 1.0})
    for s in ['mono', 'bin', 'ter', 'quat']:
        cases.append({'kind': 'solved', 'system': s})
    for n, kT in itertools.product(ranks, [1.0, 0.6, 1.7]):
        cases.append({'kind': 'gdesign', 'rank': n, 'kT': kT})
    chunks = [cases[i::48] for i in range(48)]
    core.pmap(_worker, [c for c in chunks if c], rec)
    att, conv = rec.c.get('solve_attempted', 0), rec.c.get('solve_converged', 0)
    if att and conv == 0:
        raise HarnessError('no solved system converged: the solved-object part decided nothing')
    rec.note('alphabets', {'ranks': ranks, 'data_sets': datas, 'flag_states': 8, 'diameters': DIAM, 'densities': RHO, 'kT': [1.0, 1.7],
                           'calls': [[a, b] for a, b in CALLS], 'type_names': NAMES, 'designed_g_values_for_pmf': GDESIGN})
    rec.note('attempted/converged', [att, conv])
    rec.sample({'kind': 'pop', 'rank': 3, 'data': 'A', 'flags': ['R', 'F', 'R'], 'diam': 'unequal', 'kT': 1.7})
    rec.sample({'kind': 'chiw', 'rank': 3, 'pair': [1, 2], 'diam': 'unequal', 'flags': ['F', 'F', 'F']})
