"""C04 - results are invariant under physically meaningless reformulations of
the input.  E1 over *paired* systems: base systems x all permutations /
renamings of the type list, x split ratios (monatomic -> A/A', homopolymer ->
symmetric diblock with exact block omegas), x energy scale factors.
Differential oracle between two runs of the real code."""
from __future__ import annotations

import copy
import itertools
import warnings

import numpy as np

from mc import core, build, lattice
from mc.core import Rec, HarnessError

META = {
    'rule': ('states: systems built (base and reformulated); transitions: real solves / cost evaluations with the differential oracle evaluated; traces: '
             '(base, reformulation) pairs decided; non-trivial: the base converged, some pair correlation differs from 1 by more than 1e-3, and the '
             'reformulation is not the identity; distinct = digest of (base, reformulation, g)'),
    'assumptions': ['both solves are polished to |F| <= 1e-11; comparison tolerance 1e-7',
                    'if the reformulated system converges from the zero guess to a different root although the mapped base root IS a root of it (residual <= 1e-8 '
                    'and a solve started there stays there), this is counted as multiple roots, not as a violation'],
}

TOL = 1e-7


def solve_tight(spec, guess=None):
    """(P, x) polished to 1e-11 or None."""
    got = None
    for rt in ('krylov', 'anderson', 'df-sane'):
        P = build.create_prism(spec)
        res = build.try_solve(P, rt, guess=guess)
        if res is not None:
            got = (P, res)
            break
    if got is None and guess is None:
        out = build.solve_portfolio(spec, routes=(), ramp=True)
        if out:
            got = (out[0][1], out[0][2])
    if got is None:
        return None
    P, res = got
    r2 = build.polish(P, res.x)
    if r2 is None:
        return None
    return P, np.array(r2.x)


def observables(P):
    import pyPRISM
    calc = pyPRISM.calculate
    with warnings.catch_warnings(), np.errstate(all='ignore'):
        warnings.simplefilter('ignore')
        g = calc.pair_correlation(copy.deepcopy(P))
        S = calc.structure_factor(copy.deepcopy(P), normalize=False)
        w = calc.pmf(copy.deepcopy(P))
    return g, S, w


def maxdev(a, b):
    a = np.asarray(a, dtype=float)
    b = np.asarray(b, dtype=float)
    return float(np.max(np.abs(a - b) / np.maximum(1.0, np.abs(b))))


# reformulations ------------------------------------------------------------

def permute_spec(spec, order, names=None):
    """types re-ordered by `order` (list of old indices) and optionally renamed."""
    old = spec['types']
    names = names or {t: t for t in old}
    new_types = [names[old[i]] for i in order]
    s = {'types': new_types, 'kT': spec['kT'], 'domain': dict(spec['domain']),
         'density': {names[t]: spec['density'][t] for t in old}, 'diameter': {names[t]: spec['diameter'][t] for t in old}, 'pairs': {}}
    if spec.get('style'):
        s['style'] = spec['style']
    for a, b in build.pairs_of(old):
        p = spec['pairs'][build.pair_key(old, a, b)]
        s['pairs'][build.pair_key(new_types, names[a], names[b])] = copy.deepcopy(p)
    return s, names


def map_x_perm(x, spec, order):
    L = spec['domain']['length']
    n = len(spec['types'])
    X = np.asarray(x).reshape(L, n, n)
    return X[:, order, :][:, :, order].reshape(-1)


def split_mono(spec, f):
    t = spec['types'][0]
    p = spec['pairs'][build.pair_key(spec['types'], t, t)]
    rho = spec['density'][t]
    s = {'types': ['A', 'Ap'], 'kT': spec['kT'], 'domain': dict(spec['domain']),
         'density': {'A': f * rho, 'Ap': (1 - f) * rho}, 'diameter': {'A': spec['diameter'][t], 'Ap': spec['diameter'][t]}, 'pairs': {}}
    for key, om in (('A|A', ['SingleSite', {}]), ('A|Ap', ['NoIntra', {}]), ('Ap|Ap', ['SingleSite', {}])):
        s['pairs'][key] = {'closure': list(p['closure']), 'potential': copy.deepcopy(p['potential']), 'omega': om}
    return s


def split_homopolymer(spec):
    t = spec['types'][0]
    p = spec['pairs'][build.pair_key(spec['types'], t, t)]
    N, sg = p['omega'][1]['length'], p['omega'][1]['sigma']
    h = N // 2
    rho = spec['density'][t]
    s = {'types': ['A', 'B'], 'kT': spec['kT'], 'domain': dict(spec['domain']),
         'density': {'A': rho / 2, 'B': rho / 2}, 'diameter': {'A': spec['diameter'][t], 'B': spec['diameter'][t]}, 'pairs': {}}
    oms = {'A|A': ['GaussBlockDiag', {'block': h, 'sigma': sg}], 'A|B': ['GaussBlockCross', {'Na': h, 'Nb': h, 'sigma': sg}],
           'B|B': ['GaussBlockDiag', {'block': h, 'sigma': sg}]}
    for key in oms:
        s['pairs'][key] = {'closure': list(p['closure']), 'potential': copy.deepcopy(p['potential']), 'omega': oms[key]}
    return s


def split_homopolymer_solvent(spec):
    """base: types [P, S], P a Gaussian homopolymer, S a monatomic solvent.  New: the two halves of P as A, B (exact block
    omegas) next to the unchanged S: three types with a non-zero cross omega between two of them."""
    P_, S_ = spec['types']
    pp = spec['pairs'][build.pair_key(spec['types'], P_, P_)]
    ps = spec['pairs'][build.pair_key(spec['types'], P_, S_)]
    ss = spec['pairs'][build.pair_key(spec['types'], S_, S_)]
    N, sg = pp['omega'][1]['length'], pp['omega'][1]['sigma']
    h = N // 2
    rho = spec['density'][P_]
    s = {'types': ['A', 'B', S_], 'kT': spec['kT'], 'domain': dict(spec['domain']),
         'density': {'A': rho / 2, 'B': rho / 2, S_: spec['density'][S_]},
         'diameter': {'A': spec['diameter'][P_], 'B': spec['diameter'][P_], S_: spec['diameter'][S_]}, 'pairs': {}}
    oms = {'A|A': ['GaussBlockDiag', {'block': h, 'sigma': sg}], 'A|B': ['GaussBlockCross', {'Na': h, 'Nb': h, 'sigma': sg}],
           'B|B': ['GaussBlockDiag', {'block': h, 'sigma': sg}]}
    for key in oms:
        s['pairs'][key] = {'closure': list(pp['closure']), 'potential': copy.deepcopy(pp['potential']), 'omega': oms[key]}
    for key in ('A|%s' % S_, 'B|%s' % S_):
        s['pairs'][key] = {'closure': list(ps['closure']), 'potential': copy.deepcopy(ps['potential']), 'omega': ['NoIntra', {}]}
    s['pairs']['%s|%s' % (S_, S_)] = copy.deepcopy(ss)
    return s


def map_x_split_solvent(x, spec):
    L = spec['domain']['length']
    X = np.asarray(x).reshape(L, 2, 2)
    idx = [0, 0, 1]
    return X[:, idx, :][:, :, idx].reshape(-1).copy()


def rel_split_solvent(P_, S_):
    def relate(gb, Sb, wb, gn, Sn, wn):
        pr = []
        old = {'A': P_, 'B': P_, S_: S_}
        for a in gn.types:
            for b in gn.types:
                d = maxdev(gn[a, b], gb[old[a], old[b]])
                if d > TOL:
                    pr.append('g[%s,%s] of the system with the polymer split into two blocks differs from g[%s,%s] of the unsplit system by %.3g'
                              % (a, b, old[a], old[b], d))
        return pr
    return relate


def map_x_split(x, spec):
    L = spec['domain']['length']
    X = np.asarray(x).reshape(L, 1, 1)
    return np.broadcast_to(X, (L, 2, 2)).reshape(-1).copy()


def scale_spec(spec, s):
    out = copy.deepcopy(spec)
    out['kT'] = spec['kT'] * s
    for p in out['pairs'].values():
        if 'epsilon' in p['potential'][1]:
            p['potential'][1]['epsilon'] = p['potential'][1]['epsilon'] * s
    return out


# ------------------------------------------------------------------------------

def tags(kind, reform):
    return {'kind': kind, 'reform': reform}


def compare_pair(rec, case, base_spec, Pb, xb, new_spec, xmap, reform, relate):
    """relate(gb,Sb,wb, gn,Sn,wn) -> list of (msg) problems."""
    rec.state()
    # (1) the mapped base root must be a root of the reformulated system
    Pn = build.create_prism(new_spec)
    rec.trans()
    with warnings.catch_warnings(), np.errstate(all='ignore'):
        warnings.simplefilter('ignore')
        y = np.asarray(Pn.cost(np.array(xmap, dtype=float)))
    res_at = float(np.max(np.abs(y))) if np.all(np.isfinite(y)) else float('inf')
    if not res_at <= 1e-8:
        rec.fail(case, '%s: the solution of the base system, mapped to the reformulated system, is not a solution of it (residual %.3g)' % (reform, res_at),
                 tags('mapped-root', reform.split(':')[0]))
        return
    # (2) independent solve of the reformulated system
    rec.trans()
    sol = solve_tight(new_spec)
    gb, Sb, wb = observables(Pb)
    if sol is None:
        rec.count('reformulated_not_converged_from_zero')
        sol = solve_tight(new_spec, guess=xmap)
        if sol is None:
            rec.count('pair_not_converged')
            return
    Pn, xn = sol
    gn, Sn, wn = observables(Pn)
    probs = relate(gb, Sb, wb, gn, Sn, wn)
    if probs:
        # different root?  start the reformulated system at the mapped base root
        sol2 = solve_tight(new_spec, guess=xmap)
        if sol2 is not None:
            g2, S2, w2 = observables(sol2[0])
            if not relate(gb, Sb, wb, g2, S2, w2):
                rec.count('multiple_roots')
                probs = []
    for msg in probs[:2]:
        rec.fail(case, '%s: %s' % (reform, msg), tags('result', reform.split(':')[0]))
    rec.trace()
    nontrivial = bool(np.any(np.abs(gb.data - 1.0)[len(gb.data) // 3:] > 1e-3))
    if nontrivial:
        rec.outcome(core.digest([case.get('base'), reform, np.round(gn.data[::6], 5)], 6))


def rel_perm(types_b, types_n, names):
    inv = {v: k for k, v in names.items()}

    def relate(gb, Sb, wb, gn, Sn, wn):
        pr = []
        for a in types_n:
            for b in types_n:
                oa, ob = inv[a], inv[b]
                d = maxdev(gn[a, b], gb[oa, ob])
                if d > TOL:
                    pr.append('g[%s,%s] of the re-ordered/renamed system differs from g[%s,%s] of the base by %.3g' % (a, b, oa, ob, d))
                d = maxdev(Sn[a, b], Sb[oa, ob])
                if d > TOL:
                    pr.append('S(k)[%s,%s] differs from the base S(k)[%s,%s] by %.3g' % (a, b, oa, ob, d))
        return pr
    return relate


def rel_split(tb):
    def relate(gb, Sb, wb, gn, Sn, wn):
        pr = []
        base = gb[tb, tb]
        for a in gn.types:
            for b in gn.types:
                d = maxdev(gn[a, b], base)
                if d > TOL:
                    pr.append('g[%s,%s] of the split system differs from g of the unsplit system by %.3g' % (a, b, d))
        tot = np.sum(Sn.data, axis=(1, 2))
        d = maxdev(tot, Sb[tb, tb])
        if d > TOL:
            pr.append('sum of the partial structure factors of the split system differs from S(k) of the unsplit system by %.3g' % d)
        return pr
    return relate


def rel_scale(s):
    def relate(gb, Sb, wb, gn, Sn, wn):
        pr = []
        d = maxdev(gn.data, gb.data)
        if d > TOL:
            pr.append('g(r) changed by %.3g when all energies and kT were multiplied by %g' % (d, s))
        d = maxdev(Sn.data, Sb.data)
        if d > TOL:
            pr.append('S(k) changed by %.3g when all energies and kT were multiplied by %g' % (d, s))
        m = gb.data > 1e-6
        with np.errstate(all='ignore'):
            dw = np.abs(wn.data - s * wb.data)[m] / np.maximum(1.0, np.abs(s * wb.data[m]))
        if dw.size and float(np.max(dw)) > 1e-6:
            pr.append('potential of mean force is not multiplied by the scale factor %g (max deviation %.3g)' % (s, float(np.max(dw))))
        return pr
    return relate


def gen_base(b):
    if b[0] == 'rank2':
        return lattice.rank2(b[1], b[2], b[3])
    if b[0] == 'rank3':
        return lattice.rank3(b[1], b[2])
    if b[0] == 'mono':
        return lattice.rank1(b[1], 'single', b[2], b[3])
    if b[0] == 'homosolv':
        # homopolymer P (Gaussian, N sites) + monatomic solvent S
        sp = lattice.rank2(b[1], 0, b[2], rho=[b[3], b[4]], diam=[1.0, 1.0])
        sp['types'] = ['P', 'S']
        sp['density'] = {'P': b[3], 'S': b[4]}
        sp['diameter'] = {'P': 1.0, 'S': 1.2}
        pa = sp['pairs']
        sp['pairs'] = {'P|P': pa['A|A'], 'P|S': pa['A|B'], 'S|S': pa['B|B']}
        sp['pairs']['P|P']['omega'] = ['Gaussian', {'sigma': 1.0, 'length': b[5]}]
        return sp
    if b[0] == 'homo':
        sp = lattice.rank1(b[1], 'gauss6', b[2], b[3])
        sp['pairs']['A|A']['omega'] = ['Gaussian', {'sigma': 1.0, 'length': b[4]}]
        return sp
    raise KeyError(b[0])


def case_base(rec, c):
    base = gen_base(c['base'])
    if c.get('style'):
        base['style'] = c['style']
    dom = build.make_domain(base['domain'])
    if not build.domain_ok(dom):
        rec.count('skipped_preconditions')
        return
    rec.count('bases_attempted')
    sol = solve_tight(base)
    if sol is None:
        rec.count('base_not_converged')
        return
    rec.count('bases_converged')
    Pb, xb = sol
    types = base['types']
    n = len(types)
    for rf in c['reforms']:
        case = dict(c, reforms=[rf])
        if rf[0] == 'perm':
            order = rf[1]
            new, names = permute_spec(base, order)
            compare_pair(rec, case, base, Pb, xb, new, map_x_perm(xb, base, order), 'perm:%s' % order, rel_perm(types, new['types'], names))
        elif rf[0] == 'rename':
            names = {t: nm for t, nm in zip(types, ['zeta', 'alpha', 'mu'])}
            new, names = permute_spec(base, list(range(n)), names)
            compare_pair(rec, case, base, Pb, xb, new, xb, 'rename', rel_perm(types, new['types'], names))
        elif rf[0] == 'split':
            new = split_mono(base, rf[1])
            compare_pair(rec, case, base, Pb, xb, new, map_x_split(xb, base), 'split:%g' % rf[1], rel_split(types[0]))
        elif rf[0] == 'diblock':
            new = split_homopolymer(base)
            compare_pair(rec, case, base, Pb, xb, new, map_x_split(xb, base), 'diblock', rel_split(types[0]))
        elif rf[0] == 'diblock+solvent':
            new = split_homopolymer_solvent(base)
            compare_pair(rec, case, base, Pb, xb, new, map_x_split_solvent(xb, base), 'diblock+solvent', rel_split_solvent(types[0], types[1]))
        elif rf[0] == 'scale':
            new = scale_spec(base, rf[1])
            compare_pair(rec, case, base, Pb, xb, new, xb, 'scale:%g' % rf[1], rel_scale(rf[1]))
        else:
            raise HarnessError('reform %r' % (rf,))


def replay(rec, case):
    with warnings.catch_warnings(), np.errstate(all='ignore'):
        warnings.simplefilter('ignore')
        case_base(rec, case)


def _worker(c):
    rec = Rec('C04')
    replay(rec, c)
    return rec.to_dict()


R2_BASES = [['PY+HS', 'HNChc+HCLJ', 'PY+EXP'], ['HNC+HS', 'PY+LJ', 'MSAhc+EXP'], ['PYhc+HS', 'HNC+WCA', 'HNC+HCLJ'],
            ['PY+EXP', 'PY+HS', 'HNChc+HCLJ'], ['MSAhc+EXP', 'HNC+HS', 'PY+LJ']]
R3_BASES = [['PY+HS', 'HNChc+HCLJ', 'PY+EXP', 'MSAhc+EXP', 'PY+HS', 'HNChc+HCLJ'], ['PY+EXP', 'PY+HS', 'MSAhc+EXP', 'HNChc+HCLJ', 'PY+EXP', 'PY+HS']]
SCALES = [0.37, 0.7, 3.3]
SPLITS = [0.1, 0.25, 0.5, 0.9, 0.001, 0.9999]      # incl. a trace component on either side (pair density ~1e-7 .. 1e-9)


def run(rec, tier, seed):
    from mc.props import c01
    quick = tier == 'quick'
    cases = []
    scales = list(SCALES)
    if seed:
        scales.append(round(0.2 + ((seed * 0.6180339887498949) % 1.0) * 4.0, 4))
    r2 = R2_BASES if quick else [list(t) for t in c01.latin_triples(build.KIND_NAMES) if 'MShc+HS' not in t]
    for tr in r2:
        for omset in ([0, 1] if quick else [0, 1]):
            reforms = [['perm', [1, 0]], ['rename']] + [['scale', s] for s in scales]
            cases.append({'base': ['rank2', tr, omset, 1.0], 'reforms': reforms})
    r3 = R3_BASES if quick else R3_BASES + [[lattice.R3_KINDS[(a + b * p) % 4] for p in range(6)] for a in range(4) for b in range(4)]
    for s6 in r3:
        reforms = [['perm', list(o)] for o in itertools.permutations(range(3)) if list(o) != [0, 1, 2]] + [['rename']] + [['scale', s] for s in scales[:2]]
        cases.append({'base': ['rank3', s6, 1.0], 'reforms': reforms})
    kinds = ['PY+HS', 'HNChc+HCLJ', 'PY+EXP', 'HNC+WCA', 'MSAhc+EXP'] if quick else [k for k in build.KIND_NAMES if k != 'MShc+HS']
    for kind in kinds:
        for rho in ([0.5] if quick else [0.3, 0.6]):
            cases.append({'base': ['mono', kind, rho, 1.0], 'reforms': [['split', f] for f in SPLITS] + [['scale', s] for s in scales[:2]]})
            for N in (4, 8):
                cases.append({'base': ['homo', kind, rho, 1.0, N], 'reforms': [['diblock']] + [['scale', scales[0]]]})
    # homopolymer + solvent  ->  symmetric diblock + solvent (three types, non-zero cross omega next to a third species)
    hs = R2_BASES[:3] if quick else R2_BASES + [['PY+HS', 'PY+HS', 'PY+HS'], ['HNC+HS', 'PYhc+HS', 'PY+EXP']]
    for tr in hs:
        for N, rp, rs in ([(8, 0.5, 0.02), (4, 0.3, 0.2)] if quick else [(8, 0.5, 0.02), (4, 0.3, 0.2), (8, 0.2, 0.4), (6, 0.4, 0.1)]):
            cases.append({'base': ['homosolv', tr, 1.0, rp, rs, N], 'reforms': [['diblock+solvent'], ['perm', [1, 0]]]})
    # the same kind on every pair of a two-type base, tables filled by ONE statement; the permuted system is built the same
    # way, so an object shared between pairs makes the result depend on the order of the type list
    for kind in kinds:
        for st in ('bulk-list', 'bulk-setunset'):
            cases.append({'base': ['rank2', [kind, kind, kind], 0, 1.0], 'reforms': [['perm', [1, 0]]], 'style': st})
    core.pmap(_worker, cases, rec)
    att, conv = rec.c.get('bases_attempted', 0), rec.c.get('bases_converged', 0)
    rec.note('attempted/converged', [att, conv])
    if att and conv < 0.3 * att:
        raise HarnessError('only %d of %d base systems converged' % (conv, att))
    rec.note('alphabets', {'rank2_bases': len(r2), 'rank3_bases': len(r3), 'mono_homopolymer_kinds': kinds, 'split_ratios': SPLITS,
                           'scale_factors': scales, 'permutations': 'all of the type list (2!, 3!) + one renaming'})
    rec.sample(cases[0])
    rec.sample(cases[-1])
