"""C17 - UnitConverter conversions agree with SI constants and dimensional
analysis.  E1: complete product characteristic length x unit x energy x unit x
method x argument shape on the real class, all ordered pairs of calls on one
converter (no state leaks through the registry)."""
from __future__ import annotations

import itertools
import math
import warnings

import numpy as np

from mc import core
from mc.core import Rec, HarnessError

META = {
    'rule': ('states: UnitConverter objects constructed (dc x dc_unit x ec x ec_unit); transitions: one real conversion call with '
             'the oracle evaluated; traces: (converter, method, argument) cases and ordered call pairs decided; non-trivial: the call '
             'returned a quantity whose magnitude was compared with the own formula; distinct = digest of (converter, method, argument, magnitude)'),
    'assumptions': ['SI-2019 exact constants k_B = 1.380649e-23 J/K, N_A = 6.02214076e23 /mol, e = 1.602176634e-19 C, 1 kcal = 4184 J',
                    'pint parses the unit strings; relative tolerance 1e-9 covers pint\'s own rounding of derived constants'],
}

KB = 1.380649e-23
NA = 6.02214076e23
LEN = {'nanometer': 1e-9, 'nm': 1e-9, 'angstrom': 1e-10, 'micrometer': 1e-6}          # metres
EN = {'kilojoule/mole': (1e3, True), 'kcal/mol': (4184.0, True), 'joule': (1.0, False), 'eV': (1.602176634e-19, False),
      # other spellings of a molar energy (the second is the form pint itself prints)
      'kJ mol^-1': (1e3, True), 'kilojoule / mole': (1e3, True)}
DCS = [0.5, 1.0, 1.5, 3.4, 1.2345649]          # the last ones carry 8 significant digits on purpose
ECS = [0.6, 1.0, 2.48, 2.4789573]
METHODS = ['toKelvin', 'toCelcius', 'toInvAngstrom', 'toInvNanometer', 'toConcentration', 'toVolumeFraction']
ARGS = {'scalar': 0.75, 'arr1': [1.25], 'arr3': [0.5, 1.0, 2.5],
        # memory layouts other than C order: the transpose of a 2-D array and a reversed slice
        'arr2dT': 'T', 'arr_rev': 'R', 'arr_int': 'I'}         # 'I': an integer ndarray


def materialise(arg):
    if isinstance(arg, str) and arg == 'T':
        return (0.25 + 0.5 * np.arange(6, dtype=float)).reshape(2, 3).T
    if isinstance(arg, str) and arg == 'R':
        return np.array([0.5, 1.0, 2.5, 4.0])[::-1]
    if isinstance(arg, str) and arg == 'I':
        return np.arange(1, 6)
    return np.array(arg, dtype=float) if isinstance(arg, list) else arg
UNITS = {'toKelvin': 'kelvin', 'toCelcius': 'degree_Celsius', 'toInvAngstrom': '1 / angstrom', 'toInvNanometer': '1 / nanometer',
         'toConcentration': 'mole / liter', 'toVolumeFraction': 'dimensionless'}
RTOL = 1e-9
DIAM = 1.3


def expected(method, x, dc, dcu, ec, ecu):
    x = np.asarray(x, dtype=float)
    d_m = dc * LEN[dcu]
    e_j, molar = EN[ecu]
    e_j = ec * e_j / (NA if molar else 1.0)
    if method == 'toKelvin':
        return x * e_j / KB
    if method == 'toCelcius':
        return x * e_j / KB - 273.15
    if method == 'toInvAngstrom':
        return x / (d_m / 1e-10)
    if method == 'toInvNanometer':
        return x / (d_m / 1e-9)
    if method == 'toConcentration':
        return x / (d_m ** 3) / NA / 1e3          # per m^3 -> mol / L
    if method == 'toVolumeFraction':
        return x * math.pi * DIAM ** 3 / 6.0
    raise KeyError(method)


def make(dc, dcu, ec, ecu):
    import pyPRISM
    return pyPRISM.util.UnitConverter(dc=dc, dc_unit=dcu, ec=ec, ec_unit=ecu)


class InputModified(Exception):
    pass


def call(uc, method, arg):
    a = materialise(arg)
    snap = np.array(a, dtype=float, copy=True)
    dt = getattr(a, 'dtype', None)
    if method == 'toVolumeFraction':
        q = getattr(uc, method)(a, DIAM)
    else:
        q = getattr(uc, method)(a)
    if not np.array_equal(np.asarray(a, dtype=float), snap) or getattr(a, 'dtype', None) != dt:
        raise InputModified('%s overwrote the caller\'s argument array: %r -> %r' % (method, snap.tolist(), np.asarray(a).tolist()))
    return q


def check_call(rec, case, uc, method, argname, arg, dc, dcu, ec, ecu, label=''):
    rec.trans()
    try:
        q = call(uc, method, arg)
    except InputModified as e:
        rec.fail(case, str(e) + label, {'method': method, 'kind': 'input_modified'},
                 repro="import numpy as np, pyPRISM\nuc = pyPRISM.util.UnitConverter(dc=%r, dc_unit=%r, ec=%r, ec_unit=%r)\nx = np.array([0.5, 1.0, 2.5]); uc.%s(x); print(x)"
                       % (dc, dcu, ec, ecu, method))
        return None
    except Exception as e:
        rec.fail(case, '%s(%r)%s raised %s: %s' % (method, arg, label, type(e).__name__, str(e)[:100]),
                 {'method': method, 'kind': 'raises'},
                 repro="import pyPRISM\nuc = pyPRISM.util.UnitConverter(dc=%r, dc_unit=%r, ec=%r, ec_unit=%r)\nprint(uc.%s(%s))"
                       % (dc, dcu, ec, ecu, method, '0.75, 1.3' if method == 'toVolumeFraction' else '0.75'))
        return None
    if not hasattr(q, 'magnitude') or not hasattr(q, 'units'):
        rec.fail(case, '%s%s returned %s, not a quantity' % (method, label, type(q).__name__), {'method': method, 'kind': 'type'})
        return None
    mag = np.asarray(q.magnitude, dtype=float)
    want = expected(method, materialise(arg), dc, dcu, ec, ecu)
    if mag.shape != want.shape:
        rec.fail(case, '%s%s: result shape %r for argument shape %r' % (method, label, mag.shape, want.shape), {'method': method, 'kind': 'shape'})
        return None
    scale = np.maximum(np.abs(want), 273.15 if method == 'toCelcius' else 0.0)
    if not np.all(np.abs(mag - want) <= RTOL * scale):
        rec.fail(case, '%s(%r)%s with dc=%r %s, ec=%r %s gives %r, textbook formula gives %r' % (method, arg, label, dc, dcu, ec, ecu, mag.tolist(), want.tolist()),
                 {'method': method, 'kind': 'value'})
    try:
        same_unit = (q.units == uc.pint.Unit(UNITS[method]))
    except Exception:
        same_unit = False
    if not same_unit:
        rec.fail(case, '%s%s returns unit %r, expected %s' % (method, label, str(q.units), UNITS[method]), {'method': method, 'kind': 'unit'})
    rec.outcome(core.digest([dc, dcu, ec, ecu, method, argname, mag]))
    return mag


def case_conv(rec, c):
    dc, dcu, ec, ecu = c['dc'], c['dc_unit'], c['ec'], c['ec_unit']
    try:
        uc = make(dc, dcu, ec, ecu)
    except Exception as e:
        rec.fail(c, 'constructor raised %s: %s' % (type(e).__name__, str(e)[:100]), {'method': 'init', 'kind': 'raises'})
        return
    rec.state()
    for method in METHODS:
        res = {}
        for an, arg in ARGS.items():
            res[an] = check_call(rec, dict(c, method=method, arg=an), uc, method, an, arg, dc, dcu, ec, ecu)
            rec.trace()
        # a result handed out earlier is the caller's: a second call with another array of the same shape must not change it
        try:
            q1 = call(uc, method, [0.5, 1.0, 2.5])
            m1 = q1.magnitude
            snap1 = np.array(m1, dtype=float, copy=True)
            q2 = call(uc, method, [1.5, 3.0, 7.5])
            rec.trans(2)
            if not np.array_equal(np.asarray(m1, dtype=float), snap1):
                rec.fail(dict(c, method=method), '%s: the array returned by the first call changed when the method was called again with another array of the same shape'
                         % method, {'method': method, 'kind': 'aliasing'})
            elif np.ndim(m1) and np.ndim(q2.magnitude) and np.shares_memory(np.asarray(m1), np.asarray(q2.magnitude)):
                rec.fail(dict(c, method=method), '%s: two results share memory' % method, {'method': method, 'kind': 'aliasing'})
        except Exception:
            pass
        # the caller re-uses ONE buffer: convert, change the buffer in place, convert again - the second result is for the new content
        try:
            x = np.array([0.5, 1.0, 2.5])
            f = getattr(uc, method)
            qa = f(x, DIAM) if method == 'toVolumeFraction' else f(x)
            ma = np.array(qa.magnitude, dtype=float, copy=True)
            x *= 2.0
            x += 0.25
            qb = f(x, DIAM) if method == 'toVolumeFraction' else f(x)
            rec.trans(2)
            mb = np.asarray(qb.magnitude, dtype=float)
            want = expected(method, x, dc, dcu, ec, ecu)
            scale = np.maximum(np.abs(want), 273.15 if method == 'toCelcius' else 0.0)
            if mb.shape != want.shape or not np.all(np.abs(mb - want) <= RTOL * scale):
                rec.fail(dict(c, method=method), '%s: the same array object converted again after the caller changed its content in place gives %r, the formula on the new content gives %r '
                         '(the first conversion gave %r)' % (method, mb.tolist(), want.tolist(), ma.tolist()), {'method': method, 'kind': 'stale'},
                         repro="import numpy as np, pyPRISM\nuc = pyPRISM.util.UnitConverter(dc=%r, dc_unit=%r, ec=%r, ec_unit=%r)\nx = np.array([0.5, 1.0, 2.5]); a = uc.%s(x%s); x *= 2; print(a, uc.%s(x%s))"
                               % (dc, dcu, ec, ecu, method, ', 1.3' if method == 'toVolumeFraction' else '', method, ', 1.3' if method == 'toVolumeFraction' else ''))
            elif not np.array_equal(np.asarray(qa.magnitude, dtype=float), ma):
                rec.fail(dict(c, method=method), '%s: the first result changed when the same (modified) array was converted again' % method, {'method': method, 'kind': 'aliasing'})
        except Exception:
            pass
        # linearity (affine for Celsius) from three scalar arguments, elementwise on arrays
        vals = []
        ok = True
        for x in (0.0, 1.0, 2.5, 3.5):
            try:
                vals.append(float(np.asarray(call(uc, method, x).magnitude)))
            except Exception:
                ok = False
                break
            rec.trans()
        if ok:
            f0, f1, f25, f35 = vals
            sc = max(abs(v) for v in vals) + 1e-300
            if abs((f35 - f0) - ((f1 - f0) + (f25 - f0))) > 1e-12 * sc or abs((f25 - f0) - 2.5 * (f1 - f0)) > 1e-12 * sc:
                rec.fail(dict(c, method=method), '%s is not %s in its argument' % (method, 'affine' if method == 'toCelcius' else 'linear'),
                         {'method': method, 'kind': 'linearity'})
            if method != 'toCelcius' and abs(f0) > 1e-300:
                rec.fail(dict(c, method=method), '%s(0) = %r, expected 0' % (method, f0), {'method': method, 'kind': 'linearity'})
            if res.get('arr3') is not None:
                try:
                    single = [float(np.asarray(call(uc, method, x).magnitude)) for x in ARGS['arr3']]
                    if not np.allclose(single, res['arr3'], rtol=1e-13, atol=0):
                        rec.fail(dict(c, method=method), '%s is not elementwise on arrays' % method, {'method': method, 'kind': 'elementwise'})
                except Exception:
                    pass


def case_pairs(rec, c):
    """All ordered pairs of calls on one converter: the second result must not depend on the first call."""
    dc, dcu, ec, ecu = c['dc'], c['dc_unit'], c['ec'], c['ec_unit']
    uc = make(dc, dcu, ec, ecu)
    rec.state()
    for m1, m2 in itertools.product(METHODS, repeat=2):
        try:
            call(uc, m1, ARGS['arr3'])
        except Exception:
            pass
        rec.trans()
        check_call(rec, dict(c, first=m1, method=m2), uc, m2, 'scalar', ARGS['scalar'], dc, dcu, ec, ecu, label=' after %s' % m1)
        rec.trace()
    # the constructor arguments are still what the converter reports
    try:
        d_m = float(uc.dc.to('meter').magnitude)
        if abs(d_m - dc * LEN[dcu]) > RTOL * d_m:
            rec.fail(c, 'characteristic length changed to %r m' % d_m, {'method': 'dc', 'kind': 'value'})
    except Exception as e:
        rec.fail(c, 'reading dc raised %s' % type(e).__name__, {'method': 'dc', 'kind': 'raises'})


def case_two(rec, c):
    """Two converters with different characteristic values alive in one process: all four orders of
    (construct A, construct B, use A, use B); each must answer with its own constants."""
    A = (c['dc'], c['dc_unit'], c['ec'], c['ec_unit'])
    B = (c['dc2'], c['dc_unit2'], c['ec2'], c['ec_unit2'])
    for order in ('ABab', 'ABba', 'AaBb', 'AaBa'):
        objs = {}
        rec.state()
        for step in order:
            if step in 'AB':
                objs[step] = make(*(A if step == 'A' else B))
            else:
                par = A if step == 'a' else B
                uc = objs[step.upper()]
                for method in METHODS:
                    check_call(rec, dict(c, order=order, method=method), uc, method, 'arr3', ARGS['arr3'], *par,
                               label=' (converter %s in construction/use order %s)' % (step.upper(), order))
                    rec.trace()


DOC_DEFAULTS = {'dc': 1.0, 'dc_unit': 'nanometer', 'ec': 2.48, 'ec_unit': 'kilojoule/mole'}     # documented constructor defaults


def case_defaults(rec, c):
    """A converter built with explicit arguments, then converters built with some arguments omitted (documented defaults),
    then a shallow copy of each; and a valid call after a call that failed."""
    import copy
    import pyPRISM
    first = dict(dc=c['dc'], dc_unit=c['dc_unit'], ec=c['ec'], ec_unit=c['ec_unit'])
    try:
        uc0 = pyPRISM.util.UnitConverter(**first)
    except Exception as e:
        rec.fail(c, 'constructor raised %s' % type(e).__name__, {'method': 'init', 'kind': 'raises'})
        return
    rec.state()
    for omit in (['dc_unit', 'ec', 'ec_unit'], ['dc', 'dc_unit'], ['ec_unit'], ['dc', 'dc_unit', 'ec', 'ec_unit']):
        kw = {k: v for k, v in first.items() if k not in omit}
        eff = dict(DOC_DEFAULTS)
        eff.update(kw)
        try:
            uc = pyPRISM.util.UnitConverter(**kw)
        except Exception as e:
            rec.fail(dict(c, omitted=omit), 'UnitConverter(%r) raised %s' % (kw, type(e).__name__), {'method': 'init', 'kind': 'raises'})
            continue
        rec.state()
        for method in METHODS:
            check_call(rec, dict(c, omitted=omit, method=method), uc, method, 'arr3', ARGS['arr3'], eff['dc'], eff['dc_unit'], eff['ec'], eff['ec_unit'],
                       label=' (constructed with %r omitted, after another converter was built with %r)' % (omit, first))
            rec.trace()
    # the first converter still answers with its own values, and so does a shallow copy of it
    for label, obj in (('', uc0), (' (copy.copy of the converter)', None)):
        if obj is None:
            try:
                obj = copy.copy(uc0)
            except Exception:
                continue
        for method in METHODS:
            check_call(rec, dict(c, method=method, copied=bool(label)), obj, method, 'arr3', ARGS['arr3'], c['dc'], c['dc_unit'], c['ec'], c['ec_unit'], label=label)
            rec.trace()
    # a call that fails must not change what the next valid call returns
    for bad in METHODS:
        try:
            getattr(uc0, bad)(None) if bad != 'toVolumeFraction' else getattr(uc0, bad)(None, None)
        except Exception:
            pass
        for method in METHODS:
            check_call(rec, dict(c, method=method, after_failed=bad), uc0, method, 'scalar', ARGS['scalar'], c['dc'], c['dc_unit'], c['ec'], c['ec_unit'],
                       label=' after a failed %s(None)' % bad)
            rec.trace()


def replay(rec, case):
    with warnings.catch_warnings(), np.errstate(all='ignore'):
        warnings.simplefilter('ignore')
        if case.get('kind') == 'pairs':
            case_pairs(rec, case)
        elif case.get('kind') == 'two':
            case_two(rec, case)
        elif case.get('kind') == 'defaults':
            case_defaults(rec, case)
        else:
            case_conv(rec, case)


def _worker(chunk):
    rec = Rec('C17')
    with warnings.catch_warnings(), np.errstate(all='ignore'):
        warnings.simplefilter('ignore')
        for c in chunk:
            replay(rec, c)
    return rec.to_dict()


def run(rec, tier, seed):
    dcs, ecs = list(DCS), list(ECS)
    if seed:
        phi = 0.6180339887498949
        dcs.append(round(0.2 + ((seed * phi) % 1.0) * 5, 4))
        ecs.append(round(0.1 + ((seed * phi * 2) % 1.0) * 5, 4))
    if tier == 'quick':
        dcs, ecs = dcs[1:3] + dcs[4:], ecs[1:]
    cases = []
    for dc, dcu, ec, ecu in itertools.product(dcs, LEN, ecs, EN):
        cases.append({'kind': 'conv', 'dc': dc, 'dc_unit': dcu, 'ec': ec, 'ec_unit': ecu})
    pair_units = [('nm', 'kilojoule/mole'), ('angstrom', 'eV')] if tier == 'quick' else list(itertools.product(LEN, EN))
    for dcu, ecu in pair_units:
        cases.append({'kind': 'pairs', 'dc': 1.5, 'dc_unit': dcu, 'ec': 2.48, 'ec_unit': ecu})
    twos = list(itertools.product(LEN, EN)) if tier == 'thorough' else [('nm', 'kilojoule/mole'), ('angstrom', 'kcal/mol'), ('micrometer', 'eV')]
    for (dcu, ecu), (dcu2, ecu2) in itertools.product(twos, repeat=2):
        cases.append({'kind': 'two', 'dc': 1.5, 'dc_unit': dcu, 'ec': 2.48, 'ec_unit': ecu,
                      'dc2': 3.4, 'dc_unit2': dcu2, 'ec2': 0.6, 'ec_unit2': ecu2})
    for dcu, ecu in ([('angstrom', 'kcal/mol'), ('micrometer', 'eV')] if tier == 'quick' else list(itertools.product(LEN, EN))):
        cases.append({'kind': 'defaults', 'dc': 4.5, 'dc_unit': dcu, 'ec': 0.6, 'ec_unit': ecu})
    chunks = [cases[i::32] for i in range(32)]
    core.pmap(_worker, [c for c in chunks if c], rec)
    rec.note('alphabets', {'dc': dcs, 'dc_unit': list(LEN), 'ec': ecs, 'ec_unit': list(EN), 'methods': METHODS, 'arguments': ARGS,
                           'diameter_for_volume_fraction': DIAM})
    rec.sample({'kind': 'conv', 'dc': 1.5, 'dc_unit': 'nm', 'ec': 2.48, 'ec_unit': 'kilojoule/mole'})
    rec.sample({'kind': 'pairs', 'dc': 1.5, 'dc_unit': 'angstrom', 'ec': 2.48, 'ec_unit': 'eV'})
