"""C09 - closures equal their definitions and respect core, limit and purity
rules.  E1: complete elementwise product (closure x alias x flag x position of
r relative to sigma x gamma x u) evaluated on the real closure objects, all
vectors over a 4-symbol alphabet on 1-3 point grids for non-interference,
epsilon ladder for the linearisation."""
from __future__ import annotations

import itertools
import math
import warnings

import numpy as np

from mc import core
from mc.core import Rec, HarnessError
from mc.refmodel import basic as ref

META = {
    'rule': ('states: closure objects configured (closure class x alias x hard-core flag x sigma); transitions: one real '
             'calculate(r,gamma) call with the oracle evaluated; traces: elements of the (position,gamma,u) product / vectors '
             'compared; non-trivial: element compared with the reference relation; distinct = digest of (closure, flag, '
             'r-class, gamma, u, value)'),
    'assumptions': ['published relations: PY c=(e^-u-1)(1+gamma); HNC c=e^(gamma-u)-1-gamma; MSA c=-u; '
                    'MS g=exp(sqrt(1+2(gamma-u))-1) or g=exp(-u+sqrt(1+2gamma)-1) (either placement of u accepted, consistently per run)'],
}

CLOSURES = {'PY': ('PercusYevick', 'PY'), 'HNC': ('HyperNettedChain', 'HNC'),
            'MSA': ('MeanSphericalApproximation', 'MSA'), 'MS': ('MartynovSarkisov', 'MS')}
GAMMAS = [-1e3, -2.0, -1.0, -0.5, -4e-3, 0.0, 1e-3, 0.5, 1.0, 3.0, 40.0, 400.0, 1e3]      # exp(400) = 5e173 is finite: the relation has a finite value there
US = [-2.0, -0.3, -1e-3, -7e-4, -1e-11, 0.0, 3e-4, 2e-3, 0.3, 2.0, 1e6]      # -1e-11 next to 1e6: a tail 17 decades below the core value
U_INF = float('inf')          # HardSphere(high_value=np.inf) is a legal hard core; used for every closure except MS (K1 expression is NaN there)
SIGMAS = [1.0, 1.3, 0.75]
DR = 0.1
EPS = np.finfo(float).eps


FLAGREPR = {'bool': bool, 'np': np.bool_, 'int': int}      # how the caller spells the flag value (a flag computed with numpy is a np.bool_)


def make(cname, alias, hc, flagrepr='bool'):
    import pyPRISM
    cls = getattr(pyPRISM.closure, CLOSURES[cname][1 if alias else 0])
    with warnings.catch_warnings():
        warnings.simplefilter('ignore')
        return cls(apply_hard_core=FLAGREPR[flagrepr](hc))


def positions(sigma):
    return [('deep', 0.4 * sigma), ('in1', sigma - DR), ('at', sigma), ('out1', sigma + DR), ('far', 3.0 * sigma + 0.05)]


def tol_for(cname, g, u, val):
    if cname == 'MSA':
        return 0.0
    with np.errstate(all='ignore'):
        if cname == 'PY':
            mag = (abs(ref._exp(-u)) + 1.0) * (1.0 + abs(g))
        elif cname == 'HNC':
            mag = abs(ref._exp(g - u)) * (1.0 + abs(g - u)) + 1.0 + abs(g)
        else:
            mag = abs(val) + 2.0 + abs(g) if math.isfinite(val) else float('inf')
            mag *= 4.0
    return 16 * EPS * mag


def same(a, b, tol):
    if a == b:
        return True
    if math.isnan(tol):
        tol = 0.0
    if math.isnan(a) or math.isnan(b):
        return math.isnan(a) and math.isnan(b)
    if math.isinf(a) or math.isinf(b):
        return a == b
    return abs(a - b) <= tol


def tags(cname, kind, region, form=None):
    t = {'cls': CLOSURES[cname][0], 'kind': kind, 'region': region}
    if form is not None:
        t['form'] = form
    return t


def k1_form(cname, g, u, out):
    """Identifies known finding K1 by its specific wrong expression (used only to
    recognise the recorded finding, never as an oracle): any other deviation of the
    MS closure is still reported as a violation."""
    if cname != 'MS':
        return None
    with np.errstate(all='ignore'):
        known = float(np.exp(np.sqrt(np.float64(g) - u + 0.5) - 1.0) - 1.0 - g)
    return 'K1' if same(float(out), known, 64 * EPS * (abs(known) + 2 + abs(g))) else 'other'


def case_product(rec, c):
    """One closure object, one sigma: the full (position x gamma x u) product in one array."""
    cname, alias, hc, sigma = c['closure'], c['alias'], c['hc'], c['sigma']
    try:
        C = make(cname, alias, hc, c.get('flagrepr', 'bool'))
    except (TypeError, ValueError):
        if c.get('flagrepr', 'bool') != 'bool':
            rec.count('flag_spelling_rejected')      # refusing a non-bool spelling is fine; silently ignoring it is not
            return
        raise
    pos = positions(sigma)
    us = US + ([U_INF] if cname != 'MS' else [])
    combos = list(itertools.product(range(len(pos)), GAMMAS, us))
    r = np.array([pos[p][1] for p, _, _ in combos])
    gam = np.array([g for _, g, _ in combos])
    u = np.array([uu for _, _, uu in combos])
    C.potential = u
    C.sigma = sigma
    r0, g0, u0 = r.copy(), gam.copy(), u.copy()
    rec.state()
    rec.trans()
    with np.errstate(all='ignore'):
        try:
            out = np.array(C.calculate(r, gam), dtype=float)
        except Exception as e:
            rec.fail(c, '%s.calculate raised %s: %s' % (CLOSURES[cname][0], type(e).__name__, str(e)[:80]), tags(cname, 'raises', 'any'))
            return
    if not (np.array_equal(r, r0) and np.array_equal(gam, g0) and np.array_equal(u, u0) and np.array_equal(C.potential, u0)):
        rec.fail(c, '%s.calculate modified its inputs (r, gamma or the potential)' % CLOSURES[cname][0], tags(cname, 'purity', 'any'))
    if out.shape != gam.shape:
        rec.fail(c, 'output shape %r' % (out.shape,), tags(cname, 'value', 'any'))
        return
    variants = ['inside', 'outside'] if cname == 'MS' else ['inside']
    wants = {}
    for v in variants:
        wants[v] = ref.ref_closure(cname, hc, r, sigma, gam, u, ms_variant=v)
    bad = {v: [] for v in variants}
    for i, (p, g, uu) in enumerate(combos):
        rec.trace()
        for v in variants:
            w, s, coremask = wants[v]
            incore = bool(coremask[i])
            if incore:
                ok = (out[i] == -1.0 - g)           # exact
            else:
                ok = same(float(out[i]), float(w[i]), tol_for(cname, g, uu, float(w[i])))
            if not ok:
                bad[v].append((i, incore))
        rec.outcome(core.digest([cname, hc, pos[p][0], g, uu, float(out[i]) if math.isfinite(out[i]) else repr(out[i])]))
    best = min(variants, key=lambda v: len(bad[v]))
    shown = {}
    for i, incore in bad[best]:
        p, g, uu = combos[i]
        w = wants[best][0]
        tg = tags(cname, 'value', 'core' if incore else 'outside_core', k1_form(cname, g, uu, out[i]))
        grp = (tg['region'], tg.get('form'))
        shown[grp] = shown.get(grp, 0) + 1
        if shown[grp] > 2:          # two written-out elements per (region, form) group; the rest are counted
            rec.count('further_mismatching_elements')
            continue
        rec.fail(dict(c, element={'pos': pos[p][0], 'r': float(r[i]), 'gamma': g, 'u': uu}),
                 '%s(hard_core=%s, sigma=%g) at r=%g (%s), gamma=%g, u=%g returns %r, the published relation gives %r'
                 % (CLOSURES[cname][0], hc, sigma, r[i], pos[p][0], g, uu, float(out[i]), float(w[i])),
                 tg, repro=REPRO % (CLOSURES[cname][1 if alias else 0], hc, uu, sigma, float(r[i]), g))


REPRO = ("import numpy as np, pyPRISM\nc = pyPRISM.closure.%s(apply_hard_core=%r)\nc.potential = np.array([%r]); c.sigma = %r\n"
         "print(c.calculate(np.array([%r]), np.array([%r])))")


def case_alias(rec, c):
    cname, hc, sigma = c['closure'], c['hc'], c['sigma']
    A, B = make(cname, False, hc), make(cname, True, hc)
    import pyPRISM
    if not isinstance(B, type(A)) or not isinstance(B, pyPRISM.closure.AtomicClosure):
        rec.fail(c, 'alias %s is not a %s' % (CLOSURES[cname][1], CLOSURES[cname][0]), tags(cname, 'alias', 'any'))
    pos = positions(sigma)
    combos = list(itertools.product(range(len(pos)), GAMMAS, US))
    r = np.array([pos[p][1] for p, _, _ in combos])
    gam = np.array([g for _, g, _ in combos])
    u = np.array([uu for _, _, uu in combos])
    outs = []
    rec.state()
    for X in (A, B):
        X.potential = u.copy()
        X.sigma = sigma
        with np.errstate(all='ignore'):
            outs.append(np.array(X.calculate(r.copy(), gam.copy())))
        rec.trans()
    if not np.array_equal(outs[0], outs[1], equal_nan=True):
        rec.fail(c, 'alias %s and %s differ on identical input' % CLOSURES[cname], tags(cname, 'alias', 'any'))
    rec.trace()


SYMBOLS = [(0.5, 0.7, 0.3), (1.0, -0.4, 1e6), (1.1, 0.2, -0.3), (2.5, -1.5, 0.0)]     # (r, gamma, u), sigma = 1.0


def case_vectors(rec, c):
    """All vectors over the 4-symbol alphabet on 1-, 2-, 3-point grids: the value at
    point i must equal the value of that symbol evaluated alone (bitwise)."""
    cname, hc = c['closure'], c['hc']
    C = make(cname, False, hc)
    C.sigma = 1.0
    single = []
    rec.state()
    with np.errstate(all='ignore'):
        for (r, g, u) in SYMBOLS:
            C.potential = np.array([u])
            single.append(float(np.array(C.calculate(np.array([r]), np.array([g])))[0]))
            rec.trans()
        for n in (1, 2, 3):
            for vec in itertools.product(range(4), repeat=n):
                r = np.array([SYMBOLS[s][0] for s in vec])
                g = np.array([SYMBOLS[s][1] for s in vec])
                u = np.array([SYMBOLS[s][2] for s in vec])
                C.potential = u
                out = np.array(C.calculate(r, g), dtype=float)
                rec.trans()
                rec.trace()
                for i, s in enumerate(vec):
                    a, b = float(out[i]), single[s]
                    if not (a == b or (math.isnan(a) and math.isnan(b))):
                        rec.fail(dict(c, vector=list(vec)),
                                 '%s: value at point %d of vector %s is %r but %r when that point is evaluated alone (not elementwise)'
                                 % (CLOSURES[cname][0], i, list(vec), a, b), tags(cname, 'elementwise', 'any'))
                        return
                rec.outcome(core.digest([cname, hc, list(vec)]))


def case_linear(rec, c):
    """c = -u + O(second order): |c + u| <= 4 (|a|+|b|)^2 eps^2 for gamma = eps*a, u = eps*b."""
    cname, hc = c['closure'], c['hc']
    C = make(cname, False, hc)
    C.sigma = 1.0
    dirs = [(1.0, 1.0), (-1.0, 2.0), (0.0, 1.0), (1.0, 0.0), (2.0, -1.0), (0.0, 0.0)]
    rec.state()
    worst = None
    for eps in (1e-2, 1e-3, 1e-4):
        r = np.full(len(dirs), 2.0)
        g = np.array([eps * a for a, b in dirs])
        u = np.array([eps * b for a, b in dirs])
        C.potential = u
        with np.errstate(all='ignore'):
            out = np.array(C.calculate(r, g), dtype=float)
        rec.trans()
        for i, (a, b) in enumerate(dirs):
            rec.trace()
            bound = 4.0 * (abs(a) + abs(b)) ** 2 * eps * eps + 8 * EPS
            dev = abs(out[i] + u[i])
            if not dev <= bound:
                if worst is None:
                    worst = (eps, a, b, float(out[i]), float(dev), bound)
            rec.outcome(core.digest([cname, 'lin', eps, a, b, float(out[i])]))
    if worst is not None:
        eps, a, b, o, dev, bound = worst
        rec.fail(c, '%s does not reduce to c=-u for weak potential / small gamma: gamma=%g, u=%g gives c=%r, |c+u|=%.3g > %.3g'
                 % (CLOSURES[cname][0], eps * a, eps * b, o, dev, bound), tags(cname, 'linearisation', 'outside_core', k1_form(cname, eps * a, eps * b, o)),
                 repro=REPRO % (CLOSURES[cname][0], hc, eps * b, 1.0, 2.0, eps * a))


def case_rechain(rec, c):
    """Second call on the same closure object with the *returned array of the first call* as gamma
    (and a third with the first gamma again): inputs stay unmodified, every value equals the relation
    evaluated on the snapshot of its input, and a result already handed out equals the relation too."""
    cname, hc, sigma = c['closure'], c['hc'], c['sigma']
    C = make(cname, False, hc)
    r = np.array([0.3 * sigma, sigma - DR, sigma + DR, 1.7 * sigma, 2.9 * sigma, 4.0 * sigma])
    u = np.array([1e6, 1e6, -0.4, 0.25, -0.05, 0.0]) if hc else np.array([3.0, 1.5, -0.4, 0.25, -0.05, 0.0])
    g1 = np.array([0.7, -0.3, 0.45, -0.2, 0.1, 0.02])
    C.potential = u.copy()
    C.sigma = sigma
    rec.state()
    variants = ['inside', 'outside'] if cname == 'MS' else ['inside']
    with np.errstate(all='ignore'):
        try:
            o1 = C.calculate(r.copy(), g1)
            o1_snap = np.array(o1, dtype=float, copy=True)
            g2 = o1                                     # the very object that was returned
            o2 = C.calculate(r.copy(), g2)
            g2_after = np.array(g2, dtype=float, copy=True)
            o2_snap = np.array(o2, dtype=float, copy=True)
            o3 = np.array(C.calculate(r.copy(), g1), dtype=float, copy=True)
        except Exception as e:
            rec.fail(c, '%s.calculate raised %s on a repeated call: %s' % (CLOSURES[cname][0], type(e).__name__, str(e)[:80]), tags(cname, 'raises', 'any'))
            return
    rec.trans(3)
    rec.trace()
    if cname == 'MS' and not np.all(np.isfinite(o1_snap)):
        rec.count('rechain_ms_nonfinite_skipped')
        return
    if not np.array_equal(g2_after, o1_snap, equal_nan=True):
        rec.fail(c, '%s(hard_core=%s): calculate(r, gamma) overwrote its gamma argument when gamma is the array returned by the previous call: %r -> %r'
                 % (CLOSURES[cname][0], hc, o1_snap.tolist(), g2_after.tolist()), tags(cname, 'purity', 'any'),
                 repro=("import numpy as np, pyPRISM\nc = pyPRISM.closure.%s(apply_hard_core=%r); c.sigma = 1.0\nr = np.array([0.5, 1.5, 2.5]); c.potential = np.array([1e6, 0.3, 0.0])\n"
                        "g = c.calculate(r, np.array([0.7, 0.4, 0.1])); g0 = g.copy(); c.calculate(r, g); print(g0, g)") % (CLOSURES[cname][0], hc))
        return
    if not np.array_equal(o3, o1_snap, equal_nan=True):
        rec.fail(c, '%s(hard_core=%s): the same (r, gamma) evaluated again after another call gives %r, first %r' % (CLOSURES[cname][0], hc, o3.tolist(), o1_snap.tolist()),
                 tags(cname, 'repeatable', 'any'))
    ok2 = False
    for v in variants:
        w, s_, coremask = ref.ref_closure(cname, hc, r, sigma, o1_snap, u, ms_variant=v)
        good = True
        for i in range(len(r)):
            if abs(r[i] - sigma) < 1e-6:
                continue
            if coremask[i]:
                good = good and (o2_snap[i] == -1.0 - o1_snap[i])
            else:
                good = good and same(float(o2_snap[i]), float(w[i]), tol_for(cname, float(o1_snap[i]), float(u[i]), float(w[i])))
        ok2 = ok2 or good
    if not ok2 and cname != 'MS':
        rec.fail(c, '%s(hard_core=%s): second call with the previous result as gamma returns %r, not the relation evaluated on that gamma'
                 % (CLOSURES[cname][0], hc, o2_snap.tolist()), tags(cname, 'value', 'rechain'))
    rec.outcome(core.digest([cname, hc, sigma, 'rechain', o2_snap]))


def case_two(rec, c):
    """Two closure objects of one class with different hard-core flags, both constructed before either is used (all four
    construction/use orders), on a potential that is finite inside the core; and a valid call after a call that failed."""
    cname, sigma = c['closure'], c['sigma']
    r = np.array([0.3 * sigma, sigma - DR, sigma + DR, 1.7 * sigma, 2.9 * sigma])
    u = np.array([1.7, 0.9, -0.4, 0.25, -0.05])
    g = np.array([0.7, -0.3, 0.45, -0.2, 0.1])
    variants = ['inside', 'outside'] if cname == 'MS' else ['inside']

    def ok(out, hc):
        for v in variants:
            w, s_, coremask = ref.ref_closure(cname, hc, r, sigma, g, u, ms_variant=v)
            good = True
            for i in range(len(r)):
                if coremask[i]:
                    good = good and (out[i] == -1.0 - g[i])
                else:
                    good = good and same(float(out[i]), float(w[i]), tol_for(cname, float(g[i]), float(u[i]), float(w[i])))
            if good:
                return True
        return False

    rec.state()
    for order in ('TF', 'FT'):
        for alias in (False, True):
            objs = {}
            for f in order:
                objs[f] = make(cname, alias if f == 'T' else False, f == 'T')
                objs[f].potential = u.copy()
                objs[f].sigma = sigma
            for f in order + order[::-1]:
                with np.errstate(all='ignore'):
                    out = np.array(objs[f].calculate(r.copy(), g.copy()), dtype=float)
                rec.trans()
                rec.trace()
                if cname == 'MS' and not (f == 'T'):
                    continue                    # outside-core values of MS are K1's business; only the core rule is examined for MS
                if cname == 'MS':
                    core_ok = all(out[i] == -1.0 - g[i] for i in range(len(r)) if r[i] < sigma - 1e-6)
                    if not core_ok:
                        rec.fail(c, 'MartynovSarkisov(apply_hard_core=True) constructed %s another instance with the flag off does not return -1-gamma in the core'
                                 % ('before' if order[0] == 'T' else 'after'), tags(cname, 'value', 'core'))
                        return
                    continue
                if not ok(out, f == 'T'):
                    rec.fail(c, '%s: with one instance constructed with apply_hard_core=True and one with False (construction order %s), the instance with flag %s '
                             'returns %r' % (CLOSURES[cname][0], order, f == 'T', out.tolist()), tags(cname, 'value', 'two-objects'))
                    return
    # a call that fails (gamma of the wrong length) must not change what the next valid call returns
    for hc in (False, True):
        C = make(cname, False, hc)
        C.potential = u.copy()
        C.sigma = sigma
        try:
            with np.errstate(all='ignore'):
                C.calculate(r.copy(), g[:-1].copy())
        except Exception:
            pass
        try:
            with np.errstate(all='ignore'):
                out = np.array(C.calculate(r.copy(), g.copy()), dtype=float)
        except Exception as e:
            rec.fail(c, '%s(hard_core=%s): a valid call after a failed one raised %s' % (CLOSURES[cname][0], hc, type(e).__name__), tags(cname, 'raises', 'any'))
            return
        rec.trans(2)
        if cname == 'MS':
            if hc and not all(out[i] == -1.0 - g[i] for i in range(len(r)) if r[i] < sigma - 1e-6):
                rec.fail(c, 'MartynovSarkisov(hard_core=True): after a failed call the core rule is no longer applied', tags(cname, 'value', 'core'))
            continue
        if not ok(out, hc):
            rec.fail(c, '%s(hard_core=%s): after a call that failed (gamma of the wrong length) the next valid call returns %r'
                     % (CLOSURES[cname][0], hc, out.tolist()), tags(cname, 'value', 'after-failure'))
            return
    rec.outcome(core.digest([cname, sigma, 'two']))


def _ok_vector(cname, hc, r, sigma, g, u, out):
    """out agrees with the published relation on (r, g, u) for flag hc (MS: core rule only, K1 owns the rest)."""
    if cname == 'MS':
        return (not hc) or all(out[i] == -1.0 - g[i] for i in range(len(r)) if r[i] < sigma - 1e-6)
    w, s_, coremask = ref.ref_closure(cname, hc, r, sigma, g, u, ms_variant='inside')
    for i in range(len(r)):
        if coremask[i]:
            if not out[i] == -1.0 - g[i]:
                return False
        elif not same(float(out[i]), float(w[i]), tol_for(cname, float(g[i]), float(u[i]), float(w[i]))):
            return False
    return True


def case_toggle(rec, c):
    """E2 over the life of ONE closure object: every sequence over {flag := True, flag := False, evaluate,
    continue with a deepcopy, continue with a copy.copy} up to the given depth, from both construction
    flags.  Every evaluation must follow the flag the object has at that moment (the flag is a documented
    public attribute; System users switch it on one pair after a bulk assignment)."""
    import copy
    cname, sigma, depth = c['closure'], c['sigma'], c['depth']
    r = np.array([0.3 * sigma, sigma - DR, sigma + DR, 1.7 * sigma, 2.9 * sigma])
    u = np.array([1.7, 0.9, -0.4, 0.25, -0.05])
    g = np.array([0.7, -0.3, 0.45, -0.2, 0.1])
    ops = ['T', 'F', 'E', 'D', 'C']
    for f0 in (False, True):
        for n in range(1, depth + 1):
            for seq in itertools.product(ops, repeat=n):
                if seq[-1] != 'E':
                    continue
                X = make(cname, False, f0)
                X.potential = u.copy()
                X.sigma = sigma
                flag = f0
                rec.state()
                for k, op in enumerate(seq):
                    rec.trans()
                    if op == 'T' or op == 'F':
                        flag = (op == 'T')
                        X.apply_hard_core = flag
                    elif op == 'D':
                        X = copy.deepcopy(X)
                    elif op == 'C':
                        X = copy.copy(X)
                    else:
                        try:
                            with np.errstate(all='ignore'):
                                out = np.array(X.calculate(r.copy(), g.copy()), dtype=float)
                        except Exception as e:
                            rec.fail(dict(c, f0=f0, seq=''.join(seq)), '%s: calculate raised %s after the history %s' % (CLOSURES[cname][0], type(e).__name__, ''.join(seq[:k])),
                                     tags(cname, 'raises', 'any'))
                            return
                        rec.trace()
                        if not _ok_vector(cname, flag, r, sigma, g, u, out):
                            rec.fail(dict(c, f0=f0, seq=''.join(seq)),
                                     '%s constructed with apply_hard_core=%s, then %s (T/F: flag assigned, D: deepcopy, C: copy, E: evaluate): with the flag now %s the '
                                     'evaluation returns %r' % (CLOSURES[cname][0], f0, ''.join(seq[:k + 1]), flag, out.tolist()), tags(cname, 'value', 'flag-history'),
                                     repro=("import numpy as np, pyPRISM\nc = pyPRISM.closure.%s(apply_hard_core=%r); c.sigma = 1.0; c.potential = np.array([1.7, -0.4])\n"
                                            "c.apply_hard_core = %r\nprint(c.calculate(np.array([0.5, 1.5]), np.array([0.7, 0.45])), 'core value must be', %s)")
                                     % (CLOSURES[cname][0], f0, flag, '-1.7' if flag else 'the relation'))
                            return
                rec.outcome(core.digest([cname, f0, seq]))


def case_dtype(rec, c):
    """The potential handed to the closure as an integer array (a step potential written with np.where(r<s, 10**6, 0))
    or a float32 array: the result is the relation evaluated on those numbers, not a truncated / re-typed one."""
    cname, hc, sigma = c['closure'], c['hc'], c['sigma']
    r = np.array([0.3 * sigma, sigma - DR, sigma + DR, 1.7 * sigma, 2.9 * sigma])
    g = np.array([0.7, -0.3, 0.45, -0.2, 0.1])
    for name, u in (('int64', np.array([10 ** 6, 10 ** 6, -1, 2, 0], dtype=np.int64)), ('int32', np.array([3, 1, -1, 2, 0], dtype=np.int32)),
                    ('float32', np.array([1e6, 1e6, -0.4, 0.25, -0.05], dtype=np.float32)), ('list', [1e6, 1e6, -0.4, 0.25, -0.05])):
        X = make(cname, False, hc)
        X.potential = u if isinstance(u, list) else u.copy()
        X.sigma = sigma
        rec.state()
        rec.trans()
        try:
            with np.errstate(all='ignore'):
                out = np.array(X.calculate(r.copy(), g.copy()), dtype=float)
        except Exception as e:
            if name == 'list':
                rec.count('list_potential_rejected')       # documented type is an ndarray
                continue
            rec.fail(dict(c, dtype=name), '%s.calculate raised %s for a potential array of dtype %s' % (CLOSURES[cname][0], type(e).__name__, name), tags(cname, 'raises', 'any'))
            continue
        rec.trace()
        uf = np.array(u, dtype=float)
        if cname == 'MS' and not hc:
            continue
        good = _ok_vector(cname, hc, r, sigma, g, uf, out) if name != 'float32' else bool(
            cname == 'MS' or np.allclose(out, ref.ref_closure(cname, hc, r, sigma, g, uf, ms_variant='inside')[0], rtol=1e-5, atol=1e-5))
        if not good:
            rec.fail(dict(c, dtype=name), '%s(hard_core=%s) with the potential given as a %s array %r returns %r, not the relation evaluated on those numbers'
                     % (CLOSURES[cname][0], hc, name, np.array(u).tolist(), out.tolist()), tags(cname, 'value', 'dtype'))
        rec.outcome(core.digest([cname, hc, sigma, name, out]))


KINDS = {'toggle': case_toggle, 'dtype': case_dtype, 'two': case_two, 'rechain': case_rechain, 'product': case_product, 'alias': case_alias, 'vectors': case_vectors, 'linear': case_linear}


def replay(rec, case):
    with warnings.catch_warnings():
        warnings.simplefilter('ignore')
        KINDS[case['kind']](rec, case)


def run(rec, tier, seed):
    global GAMMAS, US
    if seed:
        phi = 0.6180339887498949
        GAMMAS = GAMMAS + [round(-3 + ((seed * phi * j) % 1.0) * 8, 3) for j in (1, 2)]
        US = US + [round(-1.5 + ((seed * phi * (j + 2)) % 1.0) * 4, 3) for j in (1, 2)]
    if tier == 'thorough':
        GAMMAS = GAMMAS + [-100.0, -10.0, -0.1, 0.1, 0.25, 2.0, 10.0, 100.0, 700.0, -700.0]
        US = US + [-50.0, -1.0, 1e-6, 1.0, 10.0, 50.0, 700.0]
    sig = SIGMAS
    with warnings.catch_warnings():
        warnings.simplefilter('ignore')
        for cname in CLOSURES:
            for hc in (False, True):
                for sigma in sig:
                    for alias in (False, True):
                        case_product(rec, {'kind': 'product', 'closure': cname, 'alias': alias, 'hc': hc, 'sigma': sigma})
                    for fr in ('np', 'int'):
                        case_product(rec, {'kind': 'product', 'closure': cname, 'alias': False, 'hc': hc, 'sigma': sigma, 'flagrepr': fr})
                    case_alias(rec, {'kind': 'alias', 'closure': cname, 'hc': hc, 'sigma': sigma})
                    case_rechain(rec, {'kind': 'rechain', 'closure': cname, 'hc': hc, 'sigma': sigma})
                    case_dtype(rec, {'kind': 'dtype', 'closure': cname, 'hc': hc, 'sigma': sigma})
                if hc:
                    for sigma in sig:
                        case_two(rec, {'kind': 'two', 'closure': cname, 'sigma': sigma})
                    case_toggle(rec, {'kind': 'toggle', 'closure': cname, 'sigma': 1.0, 'depth': 4 if tier == 'quick' else 6})
                case_vectors(rec, {'kind': 'vectors', 'closure': cname, 'hc': hc})
                case_linear(rec, {'kind': 'linear', 'closure': cname, 'hc': hc})
    rec.note('alphabets', {'closures': list(CLOSURES), 'gammas': GAMMAS, 'u': US, 'sigmas': sig,
                           'positions': ['deep', 'in1', 'at (r == sigma exactly)', 'out1', 'far'], 'symbols': SYMBOLS,
                           'flag_spellings': ['True/False', 'numpy.bool_', '1/0'],
                           'flag_histories': 'all sequences over {flag:=True, flag:=False, evaluate, deepcopy, copy} ending in an evaluation, depth <= %d, both construction flags' % (4 if tier == 'quick' else 6),
                           'potential_dtypes': ['float64', 'int64', 'int32', 'float32 (to 1e-5)', 'list (may be rejected)']})
    rec.sample({'kind': 'product', 'closure': 'HNC', 'alias': False, 'hc': True, 'sigma': 1.3})
    rec.sample({'kind': 'vectors', 'closure': 'PY', 'hc': False})
