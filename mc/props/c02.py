"""C02 - solutions reproduce exact results: PY hard spheres (Wertheim-Thiele)
and the dilute limit.  E1 over refinement / dilution ladders on the real
solver: (a) packing fraction x six-level ladder dr = 0.2*2^-n at r_max = 25.6;
(b) potential x closure x kT x density ladder x dr.  Closed-form oracles with
error envelopes whose constants come from the analytic solution itself."""
from __future__ import annotations

import itertools
import math
import warnings

import numpy as np
from numpy.polynomial.legendre import leggauss

from mc import core, build
from mc.core import Rec, HarnessError
from mc.refmodel import basic as ref

META = {
    'rule': ('states: systems solved (packing fraction x ladder level; potential x closure x kT x density x dr); transitions: real solves and calculate calls '
             'with the closed-form oracle evaluated pointwise; traces: complete ladders (all levels / all densities) with the shrink test; non-trivial: the solve '
             'converged and the exact quantity compared is not constant; distinct = digest of (case, level, values)'),
    'assumptions': ['Wertheim-Thiele: c(r) = -(l1 + 6 eta l2 r + eta l1 r^3/2), l1=(1+2eta)^2/(1-eta)^4, l2=-(1+eta/2)^2/(1-eta)^4; S=1/(1-rho c(k)); contact (1+eta/2)/(1-eta)^2',
                    'effective-diameter envelope: the discrete core boundary lies within one cell of sigma, so each error is bounded by 1.25 max_{|d-sigma|<=dr} |X_WT(d)-X_WT(sigma)|',
                    'dilute limit: |g - exp(-u/kT)| <= 2 rho |f|_inf |f|_1 max(1, max exp(-u/kT)); B2 error <= (4 pi Int r|f| dr + 4 pi sigma^2 |jump|) dr/2 + rho (1+|f|_inf)|f|_1^2 + 18 dk^4 (4 pi/120) Int r^6 |f| dr',
                    'grid points within 1e-6 of sigma are excluded (K2)'],
}

RMAX = 25.6
GLX, GLW = leggauss(80)


def wt(eta, d=1.0):
    l1 = (1 + 2 * eta) ** 2 / (1 - eta) ** 4
    l2 = -(1 + eta / 2) ** 2 / (1 - eta) ** 4

    def c(r):
        x = np.asarray(r, dtype=float) / d
        return np.where(x < 1, -(l1 + 6 * eta * l2 * x + 0.5 * eta * l1 * x ** 3), 0.0)

    def ck(k):
        r = 0.5 * (GLX + 1) * d
        w = 0.5 * GLW * d
        return np.array([4 * np.pi * np.sum(w * c(r) * r * np.sin(kk * r) / kk) for kk in np.atleast_1d(k)])
    gc = (1 + eta / 2) / (1 - eta) ** 2
    gprime = (6 * eta * l2 + 1.5 * eta * l1) / d
    return c, ck, gc, gprime


def wt_family(eta, dr, k, r):
    """Exact values at sigma=1 and the effective-diameter envelope for |d-1| <= dr (fixed rho)."""
    rho = 6 * eta / np.pi
    c1, ck1, gc1, gp1 = wt(eta, 1.0)
    S1 = 1.0 / (1.0 - rho * ck1(k))
    cr1 = c1(r)
    env_g = 0.0
    env_S = np.zeros_like(S1)
    env_c = np.zeros_like(cr1)
    for d in np.linspace(1 - dr, 1 + dr, 9):
        eta_d = eta * d ** 3
        if eta_d >= 0.74:
            continue
        cd, ckd, gcd, _ = wt(eta_d, d)
        env_g = max(env_g, abs(gcd - gc1))
        env_S = np.maximum(env_S, np.abs(1.0 / (1.0 - rho * ckd(k)) - S1))
        env_c = np.maximum(env_c, np.abs(cd(r) - cr1))
    return dict(rho=rho, gc=gc1, gprime=gp1, S=S1, c=cr1, env_g=env_g, env_S=env_S, env_c=env_c)


def hs_spec(eta, L, dr):
    return {'types': ['A'], 'kT': 1.0, 'domain': {'length': L, 'dr': dr}, 'density': {'A': 6 * eta / np.pi}, 'diameter': {'A': 1.0},
            'pairs': {'A|A': {'closure': ['PY', False], 'potential': ['HS', {}], 'omega': ['SingleSite', {}]}}}


def solve_any(spec, fatol=1e-10):
    out = build.solve_portfolio(spec, routes=('krylov', 'anderson'), ramp=True)
    if not out:
        return None
    rt, P, res = out[0]
    r2 = build.polish(P, res.x, fatol=fatol)
    if r2 is None:
        return None
    return P


def solve_loose(spec):
    """A solve that scipy reports as successful with the route's own tolerance, not polished further."""
    out = build.solve_portfolio(spec, routes=('krylov', 'anderson'), ramp=True)
    if not out:
        return None
    rt, P, res = out[0]
    return P


def tags(kind, part):
    return {'kind': kind, 'part': part}


def case_wt(rec, c):
    import pyPRISM
    calc = pyPRISM.calculate
    eta, nl = c['eta'], c['levels']
    L0 = c.get('base', 128)
    RMAX = 0.2 * L0                    # coarsest spacing 0.2 for every base length (128 -> r_max 25.6)
    dom0 = build.make_domain({'length': L0, 'dr': RMAX / L0})
    k0 = np.array(dom0.k[:40])
    r0 = np.array(dom0.r)
    errs = {'contact': [], 'S': [], 'c': []}
    margins = {}
    for n in range(nl):
        L = L0 * 2 ** n
        dr = RMAX / L
        spec = hs_spec(eta, L, dr)
        if c.get('style'):
            spec['style'] = c['style']
        dom = build.make_domain(spec['domain'])
        if not build.domain_ok(dom):
            rec.count('skipped_preconditions')
            return
        rec.count('solve_attempted')
        P = solve_any(spec)
        rec.state()
        if P is None:
            rec.count('solve_not_converged')
            return
        rec.count('solve_converged')
        rec.trans()
        fam = wt_family(eta, dr, k0, r0)
        r = np.array(P.sys.domain.r)
        with warnings.catch_warnings():
            warnings.simplefilter('ignore')
            g = np.array(calc.pair_correlation(P)['A', 'A'])
            S = np.array(calc.structure_factor(P)['A', 'A'])[:40]
        Cm = P.directCorr.get_copy()
        if Cm.space == pyPRISM.Space.Fourier:
            P.sys.domain.MatrixArray_to_real(Cm)
        cr = np.array(Cm['A', 'A'])
        # contact value: first non-ambiguous grid point outside the core
        i = int(np.argmax(r > 1.0 + 1e-6))
        e_contact = abs(g[i] - fam['gc'])
        b_contact = 1.25 * fam['env_g'] + 1.5 * abs(fam['gprime']) * (r[i] - 1.0) + 1e-9
        errs['contact'].append(float(e_contact))
        margins.setdefault('contact', []).append(float(e_contact / b_contact))
        if not e_contact <= b_contact:
            rec.fail(dict(c, level=n), 'PY hard spheres eta=%g, dr=%g: contact value g(%.4g)=%.6g, Wertheim-Thiele (1+eta/2)/(1-eta)^2=%.6g; error %.3g exceeds the discretisation envelope %.3g'
                     % (eta, dr, r[i], g[i], fam['gc'], e_contact, b_contact), tags('bound', 'WT-contact'))
        # S(k) at every resolved k of the coarsest grid below k = 8 (the k grid is the same at all levels)
        eS = np.abs(S - fam['S'])
        # besides the position of the core edge inside its cell (envelope) the DST-II grid evaluates the transform of c(r)
        # half a cell off (C08): |delta c(k)| <= (4 pi Int r|c| dr) dr, and delta S = rho S^2 delta c(k)
        rq = 0.5 * (GLX + 1)
        cfc = 4 * np.pi * float(np.sum(0.5 * GLW * rq * np.abs(wt(eta)[0](rq))))
        bS = 1.25 * fam['env_S'] + fam['rho'] * fam['S'] ** 2 * cfc * dr + 1e-9
        errs['S'].append(float(eS.max()))
        margins.setdefault('S', []).append(float(np.max(eS / bS)))
        bad = np.where(eS > bS)[0]
        if len(bad):
            j = int(bad[np.argmax((eS / bS)[bad])])
            rec.fail(dict(c, level=n), 'PY hard spheres eta=%g, dr=%g: S(k=%.4g)=%.6g, Wertheim-Thiele %.6g; error %.3g exceeds the envelope %.3g'
                     % (eta, dr, k0[j], S[j], fam['S'][j], eS[j], bS[j]), tags('bound', 'WT-S'))
        if abs(fam['S'][0] - (1 - eta) ** 4 / (1 + 2 * eta) ** 2) > 0.02:
            raise HarnessError('reference S(k) inconsistent with S(0)')
        # c(r) at every r > 0 of the coarsest grid
        step = 2 ** n
        sel = np.arange(step - 1, L, step)
        m = np.abs(r[sel] - 1.0) > 1e-6
        ec = np.abs(cr[sel] - fam['c'])[m]
        bc = (1.25 * fam['env_c'] + 1e-9)[m]
        errs['c'].append(float(ec.max()))
        margins.setdefault('c', []).append(float(np.max(ec / bc)))
        bad = np.where(ec > bc)[0]
        if len(bad):
            j = int(bad[np.argmax((ec / bc)[bad])])
            rec.fail(dict(c, level=n), 'PY hard spheres eta=%g, dr=%g: c(r=%.4g)=%.6g, Wertheim-Thiele %.6g; error %.3g exceeds the envelope %.3g'
                     % (eta, dr, r[sel][m][j], cr[sel][m][j], fam['c'][m][j], ec[j], bc[j]), tags('bound', 'WT-c'))
        rec.outcome(core.digest(['wt', eta, n, g[i], S[:8], cr[sel][:8]], 6))
    for nm, es in errs.items():
        if len(es) >= 2 and not es[-1] <= 0.25 * es[0]:
            rec.fail(c, 'PY hard spheres eta=%g: the %s error does not shrink under refinement (coarsest %.3g, finest %.3g)' % (eta, nm, es[0], es[-1]),
                     tags('shrink', 'WT-' + nm))
    rec.note('wt_errors_eta_%g_base_%d' % (eta, L0), {k: ['%.3g' % x for x in v] for k, v in errs.items()})
    rec.note('wt_error_over_bound_eta_%g_base_%d' % (eta, L0), {k: ['%.2f' % x for x in v] for k, v in margins.items()})
    rec.trace()


# ------------------------------------------------------------------------------
# dilute limit

POTS = {'HS': ['HS', {}], 'HCLJ': ['HCLJ', {'epsilon': 0.5}], 'EXP': ['EXP', {'epsilon': 0.6, 'alpha': 0.5}],
        'LJ': ['LJ', {'epsilon': 0.5, 'rcut': 2.5, 'shift': True}], 'WCA': ['WCA', {'epsilon': 1.0}],
        'LJcut': ['LJ', {'epsilon': 0.5, 'rcut': 2.5, 'shift': False}]}       # truncated, not shifted (the constructor's default for shift): a small jump of e^{-u/kT} at r_cut
CLOS = {'PY': ['PY', False], 'HNC': ['HNC', False], 'MSAhc': ['MSA', True]}
RHOS = [1e-2, 1e-3, 1e-4, 1e-5, 1e-7, 1e-8, 1e-9]


def mayer(pname, cname, kT, r):
    """Exact dilute-limit g and the Mayer-like function f = g - 1 on r (hard-core potentials: core of diameter 1)."""
    u = ref.ref_potential_vec(POTS[pname], r, 1.0) / kT
    hard = pname in ref.HARD_CORE_POTENTIALS or cname == 'MSAhc'      # a closure with the hard-core flag excludes r <= d whatever the potential
    core_ = ref.in_core(r, 1.0) if hard else np.zeros(r.shape, dtype=bool)
    with np.errstate(all='ignore'):
        if cname == 'MSAhc':
            g = np.where(core_, 0.0, 1.0 - u)
        else:
            g = np.where(core_, 0.0, np.exp(-u))
    return g, g - 1.0, hard


def b2_exact(pname, cname, kT):
    """-2 pi Int f r^2 dr by Gauss-Legendre on the smooth pieces."""
    edges = [0.0, 1.0, 2 ** (1.0 / 6.0), 2.5, 6.0, 12.0, 26.0] if pname in ('LJ', 'WCA', 'LJcut') else [0.0, 1.0, 1.5, 2.5, 6.0, 12.0, 26.0]
    tot = 0.0
    for a, b in zip(edges[:-1], edges[1:]):
        r = 0.5 * (GLX + 1) * (b - a) + a
        w = 0.5 * GLW * (b - a)
        hard = pname in ref.HARD_CORE_POTENTIALS or cname == 'MSAhc'
        if hard and b <= 1.0:
            f = -np.ones_like(r)
        else:
            rr = np.maximum(r, 1.0 + 1e-3) if hard else r
            g, f, _ = mayer(pname, cname, kT, rr)
        tot += float(np.sum(w * f * r * r))
    return -2 * np.pi * tot


def case_dilute(rec, c):
    import pyPRISM
    calc = pyPRISM.calculate
    pname, cname, kT, dr = c['potential'], c['closure'], c['kT'], c['dr']
    L = int(round(RMAX / dr))
    prev = None
    errs = []
    for rho in RHOS:
        spec = {'types': ['A'], 'kT': kT, 'domain': {'length': L, 'dr': dr}, 'density': {'A': rho}, 'diameter': {'A': 1.0},
                'pairs': {'A|A': {'closure': list(CLOS[cname]), 'potential': [POTS[pname][0], dict(POTS[pname][1])], 'omega': ['SingleSite', {}]}}}
        if c.get('style'):
            spec['style'] = c['style']
        dom = build.make_domain(spec['domain'])
        if not build.domain_ok(dom):
            rec.count('skipped_preconditions')
            return
        rec.count('solve_attempted')
        rec.state()
        P = solve_any(spec, fatol=1e-12)
        if P is None:
            # The residual cannot be driven to 1e-12 (never the case on the tree this check was written against: the
            # residual floor there is ~1e-17 at every density).  The statement is about what a successful solve leaves
            # behind, so the solution scipy reports as converged with the route's own tolerance is examined instead,
            # with the same bounds.
            P = solve_loose(spec)
            if P is None:
                rec.count('solve_not_converged')
                return
            rec.count('dilute_solved_to_route_tolerance_only')
        rec.count('solve_converged')
        rec.trans()
        r = np.array(P.sys.domain.r)
        with warnings.catch_warnings():
            warnings.simplefilter('ignore')
            g = np.array(calc.pair_correlation(P)['A', 'A'])
            B2 = float(calc.second_virial(P)['A', 'A'])
        gx, f, hard = mayer(pname, cname, kT, r)
        amb = ref.ambiguous(r, 1.0) if hard else np.zeros(r.shape, dtype=bool)
        finf = float(np.max(np.abs(f)))
        f1 = float(np.sum(4 * np.pi * r * r * np.abs(f)) * dr)
        gmax = max(1.0, float(np.max(gx)))
        err = float(np.max(np.abs(g - gx)[~amb]))
        bound = 2 * rho * finf * f1 * gmax + 1e-10
        errs.append(err)
        if not err <= bound:
            ii = int(np.argmax(np.where(~amb, np.abs(g - gx), 0)))
            rec.fail(dict(c, rho=rho), '%s + %s, kT=%g, rho=%g, dr=%g: g(r=%.4g)=%.8g but the dilute limit is %.8g; error %.3g exceeds 2 rho |f|inf |f|1 = %.3g'
                     % (pname, cname, kT, rho, dr, r[ii], g[ii], gx[ii], err, bound), tags('bound', 'dilute-g'))
        if prev is not None and prev > 1e-8 and not err <= prev / 5.0 + 1e-10:
            rec.fail(dict(c, rho=rho), '%s + %s, kT=%g: the deviation from the dilute limit does not decrease with density (%.3g at rho=%g after %.3g)' % (pname, cname, kT, err, rho, prev),
                     tags('shrink', 'dilute-g'))
        prev = err
        # second virial coefficient
        B2x = b2_exact(pname, cname, kT)
        jump = abs(float(mayer(pname, cname, kT, np.array([1.0 + 1e-5]))[0][0]) - 0.0) if hard else 0.0      # g(sigma+) - g(sigma-)  (1e-5: outside the 1e-6 contact tolerance)
        cf = 4 * np.pi * float(np.sum(r * np.abs(f)) * dr) + 4 * np.pi * jump
        if pname == 'LJcut':         # second discontinuity of the integrand, at r_cut
            gc_ = mayer(pname, cname, kT, np.array([2.5 * (1 - 1e-9), 2.5 * (1 + 1e-9)]))[0]
            cf += 4 * np.pi * 2.5 ** 2 * abs(float(gc_[0] - gc_[1]))
        dk = float(P.sys.domain.dk)
        c4 = (4 * np.pi / 120.0) * float(np.sum(r ** 6 * np.abs(f)) * dr)
        bB = 0.5 * cf * dr + rho * (1 + finf) * f1 * f1 * gmax + 18 * dk ** 4 * c4 + 1e-9
        eB = abs(B2 - B2x)
        if not eB <= bB:
            rec.fail(dict(c, rho=rho), '%s + %s, kT=%g, rho=%g, dr=%g: second virial coefficient %.8g, -2 pi Int (e^{-u/kT}-1) r^2 dr = %.8g; error %.3g exceeds %.3g'
                     % (pname, cname, kT, rho, dr, B2, B2x, eB, bB), tags('bound', 'dilute-B2'))
        rec.outcome(core.digest(['dil', pname, cname, kT, dr, rho, g[::16], B2], 6))
    rec.note('dilute_%s_%s_%g_%g' % (pname, cname, kT, dr), ['%.3g' % e for e in errs])
    rec.trace()


def replay(rec, case):
    with warnings.catch_warnings(), np.errstate(all='ignore'):
        warnings.simplefilter('ignore')
        {'wt': case_wt, 'dilute': case_dilute}[case['kind']](rec, case)


def _worker(c):
    rec = Rec('C02')
    replay(rec, c)
    return rec.to_dict()


def run(rec, tier, seed):
    quick = tier == 'quick'
    etas = [0.05, 0.15, 0.25, 0.35, 0.45] if quick else [0.025 * i for i in range(1, 20)]
    cases = [{'kind': 'wt', 'eta': e, 'levels': 6 if quick else 7} for e in etas]
    pots = list(POTS)
    clos = ['PY', 'HNC', 'MSAhc']
    kTs = [0.5, 3.0] if quick else [0.5, 0.7, 1.0, 1.5, 3.0]
    drs = [0.1] if quick else [0.1, 0.05, 0.025, 0.0125]
    for p, cl, kT, dr in itertools.product(pots, clos, kTs, drs):
        if cl == 'MSAhc' and p in ('LJ', 'LJcut'):
            continue            # (MSA with the flag on the soft WCA potential is included: 1 - u/kT goes negative next to the core)
        cases.append({'kind': 'dilute', 'potential': p, 'closure': cl, 'kT': kT, 'dr': dr})
    # the same ladders on lengths that are not powers of two: 7*2^4, prime, 11^2, 2^3*3*5 (r_max = 0.2*base)
    for base in ([112, 103] if quick else [112, 103, 121, 120, 125]):
        for e in ([0.15, 0.4] if quick else [0.1, 0.2, 0.3, 0.4, 0.45]):
            cases.append({'kind': 'wt', 'eta': e, 'levels': 5, 'base': base})
    # the same systems reached through an edit history (kT assigned after construction, list keys, overwrites)
    cases.append({'kind': 'wt', 'eta': 0.3, 'levels': 4, 'style': 'edits'})
    for p, cl in ([('LJ', 'HNC'), ('HCLJ', 'PY')] if quick else [('LJ', 'HNC'), ('HCLJ', 'PY'), ('EXP', 'MSAhc'), ('WCA', 'PY'), ('HS', 'HNC')]):
        cases.append({'kind': 'dilute', 'potential': p, 'closure': cl, 'kT': 0.7, 'dr': 0.1, 'style': 'edits'})
    core.pmap(_worker, cases, rec)
    att, conv = rec.c.get('solve_attempted', 0), rec.c.get('solve_converged', 0)
    rec.note('attempted/converged', [att, conv])
    if att and conv < 0.5 * att:
        raise HarnessError('only %d of %d solves converged' % (conv, att))
    rec.note('alphabets', {'eta': etas, 'ladder': ['dr=%g' % (RMAX / (128 * 2 ** n)) for n in range(6)], 'potentials': pots, 'closures': clos, 'kT': kTs,
                           'dr_dilute': drs, 'densities': RHOS})
    rec.sample(cases[0])
    rec.sample(cases[-1])
