"""C16 - a PRISM object is a faithful, isolated snapshot of a fully specified
System.  E1: all subsets of missing specification items (2^14 for two types)
with a spy substituted for the PRISM class.  E2: BFS over edit histories of one
real System (dedup on the reference spec; every state is checked against a
freshly built System, create/solve must leave the System's deep digest
unchanged, and a PRISM object created before an edit must be unchanged after
it), plus all edit/create/solve sequences to a depth without deduplication."""
from __future__ import annotations

import copy
import enum
import hashlib
import itertools
import warnings
from collections import deque

import numpy as np

from mc import core, build
from mc.core import Rec, HarnessError
from mc.refmodel import basic as ref

META = {
    'rule': ('states: subsets of missing items (E1) and distinct reference specs reached by edit histories (E2); transitions: one real createPRISM / solve / '
             'edit call with the oracle evaluated; traces: subsets decided and complete histories enumerated; non-trivial: a PRISM object was created and '
             'compared with the freshly built System (or a ValueError was required); distinct = digest of the subset / of (spec, wiring)'),
    'assumptions': ['abstraction: create/solve leave the deep digest of the System unchanged (checked at every state), so histories with interleaved '
                    'create/solve calls are equivalent to their edit-only projection; validated by all sequences to depth 2-3 without deduplication',
                    'only documented table-level edits are in the alphabet'],
}

TYPES2 = ['A', 'B']
TYPES2N = ['solv', 'poly']


def base_spec(types=None, L=64, copolymer=False):
    types = types or TYPES2
    spec = {'types': list(types), 'kT': 1.0, 'domain': {'length': L, 'dr': 0.1},
            'density': {t: [0.2, 0.35, 0.15][i] for i, t in enumerate(types)},
            'diameter': {t: [1.0, 1.2, 0.8][i] for i, t in enumerate(types)}, 'pairs': {}}
    for a, b in build.pairs_of(types):
        key = build.pair_key(types, a, b)
        spec['pairs'][key] = {'closure': ['PY', False], 'potential': ['HS', {}],
                              'omega': (['Gaussian', {'sigma': 1.0, 'length': 6}] if (a == b == types[0]) else (['SingleSite', {}] if a == b else ['NoIntra', {}]))}
    if copolymer and len(types) >= 2:
        # (E2, three types) the first two types are the blocks of one chain: non-zero cross omega next to a third species
        t0, t1 = types[0], types[1]
        spec['pairs'][build.pair_key(types, t0, t0)]['omega'] = ['GaussBlockDiag', {'block': 3, 'sigma': 1.0}]
        spec['pairs'][build.pair_key(types, t0, t1)]['omega'] = ['GaussBlockCross', {'Na': 3, 'Nb': 4, 'sigma': 1.0}]
        spec['pairs'][build.pair_key(types, t1, t1)]['omega'] = ['GaussBlockDiag', {'block': 4, 'sigma': 1.0}]
    return spec


def items_of(spec):
    types = spec['types']
    its = ['density:%s' % t for t in types] + ['diameter:%s' % t for t in types]
    for tab in ('potential', 'closure', 'omega'):
        its += ['%s:%s' % (tab, build.pair_key(types, a, b)) for a, b in build.pairs_of(types)]
    its.append('domain')
    return its


def build_replaced(spec, missing):
    """The same partial specification reached the other way round: a FULLY specified System on which every table that has
    a missing item is then replaced by a fresh table holding only the items that are not missing (and `domain = None`)."""
    import pyPRISM
    from pyPRISM.core.Density import Density
    from pyPRISM.core.Diameter import Diameter
    from pyPRISM.core.PairTable import PairTable
    types = spec['types']
    s = build_partial(spec, set())
    part = build_partial(spec, missing)
    kinds = set(m.split(':')[0] for m in missing)
    if 'domain' in kinds:
        s.domain = None
    for tab in ('density', 'diameter', 'potential', 'closure', 'omega'):
        if tab in kinds:
            setattr(s, tab, getattr(part, tab))        # a fresh table object of the right class, partly filled
    return s


def build_partial(spec, missing):
    import pyPRISM
    types = spec['types']
    s = pyPRISM.System(list(types), kT=spec['kT'])
    if 'domain' not in missing:
        s.domain = build.make_domain(spec['domain'])
    for t in types:
        if 'density:%s' % t not in missing:
            s.density[t] = spec['density'][t]
        if 'diameter:%s' % t not in missing:
            s.diameter[t] = spec['diameter'][t]
    k = np.arange(1, spec['domain']['length'] + 1) * 0.1
    for a, b in build.pairs_of(types):
        key = build.pair_key(types, a, b)
        p = spec['pairs'][key]
        if 'closure:' + key not in missing:
            s.closure[a, b] = build.make_closure(p['closure'])
        if 'potential:' + key not in missing:
            s.potential[a, b] = build.make_potential(p['potential'])
        if 'omega:' + key not in missing:
            s.omega[a, b] = build.make_omega(p['omega'], s.domain.k if s.domain is not None else k)
    return s


class Spy(object):
    """Installed in place of the PRISM class inside pyPRISM.core.System."""
    constructed = 0
    cost_calls = 0


def install_spy():
    import pyPRISM.core.System as S
    real = S.PRISM
    if getattr(real, '_c16_spy', False):
        return real

    class SpyPRISM(real):
        _c16_spy = True

        def __init__(self, *a, **k):
            Spy.constructed += 1
            real.__init__(self, *a, **k)

        def cost(self, x):
            Spy.cost_calls += 1
            return real.cost(self, x)
    S.PRISM = SpyPRISM
    return SpyPRISM


def case_missing(rec, c):
    spec = base_spec(c['types'])
    missing = set(c['missing'])
    install_spy()
    rec.state()
    for how in ('createPRISM', 'solve') + (('createPRISM/replaced', 'solve/replaced') if c.get('replaced') else ()):
        s = build_replaced(spec, missing) if how.endswith('/replaced') else build_partial(spec, missing)
        how = how.split('/')[0] if not how.endswith('/replaced') else how
        Spy.constructed = 0
        Spy.cost_calls = 0
        rec.trans()
        try:
            with warnings.catch_warnings():
                warnings.simplefilter('ignore')
                if how.startswith('createPRISM'):
                    s.createPRISM()
                else:
                    s.solve(method='krylov', options={'maxiter': 3, 'disp': False})
            raised = None
        except ValueError as e:
            raised = 'ValueError'
        except Exception as e:
            if missing or build._from_library(e):
                raised = type(e).__name__
            else:
                raised = None
        tg = {'kind': 'missing', 'how': how}
        if missing:
            if raised != 'ValueError':
                rec.fail(c, '%s with %s missing %s' % (how, sorted(missing), 'did not raise' if raised is None else 'raised %s instead of ValueError' % raised), tg,
                         repro='# build a System(%r) leaving %s unset, then call %s()' % (spec['types'], sorted(missing), how))
            if Spy.constructed or Spy.cost_calls:
                rec.fail(c, '%s with %s missing started a calculation (%d PRISM objects constructed, %d cost evaluations)' % (how, sorted(missing), Spy.constructed, Spy.cost_calls),
                         dict(tg, kind='started'))
        else:
            if raised is not None:
                rec.fail(c, '%s on a fully specified system raised %s' % (how, raised), tg)
            if Spy.constructed != 1:
                rec.fail(c, '%s on a fully specified system constructed %d PRISM objects' % (how, Spy.constructed), tg)
    rec.trace()
    rec.outcome(core.digest(['missing', c['types'], sorted(missing)]))


# --------------------------------------------------------------------------
# deep digest of arbitrary objects (callables skipped)

def deep_digest(o):
    h = hashlib.blake2b(digest_size=12)
    _feed(h, o, set())
    return h.hexdigest()


def _feed(h, o, seen):
    if isinstance(o, np.ndarray):
        h.update(b'A' + str(o.shape).encode() + str(o.dtype).encode() + np.ascontiguousarray(o).tobytes())
    elif isinstance(o, (float, int, str, bool, type(None), np.floating, np.integer)):
        h.update(repr(o).encode())
    elif isinstance(o, enum.Enum):
        h.update(('E' + o.name).encode())
    elif isinstance(o, dict):
        h.update(b'{')
        for k in sorted(o, key=repr):
            h.update(repr(k).encode())
            _feed(h, o[k], seen)
        h.update(b'}')
    elif isinstance(o, (list, tuple)):
        h.update(b'[')
        for v in o:
            _feed(h, v, seen)
        h.update(b']')
    elif callable(o) and not hasattr(o, '__dict__'):
        h.update(b'F')
    elif hasattr(o, '__dict__'):
        if id(o) in seen:
            h.update(b'R')
            return
        seen.add(id(o))
        h.update(('O' + type(o).__name__).encode())
        d = {k: v for k, v in vars(o).items() if not (callable(v) and not isinstance(v, type) and type(v).__name__ in ('function', 'method', 'builtin_function_or_method'))}
        d.pop('pint', None)
        _feed(h, d, seen)
    else:
        h.update(('?' + type(o).__name__).encode())


# --------------------------------------------------------------------------
# E2

def edit_ops(types):
    a, b = types[0], types[-1]
    kab = build.pair_key(types, a, b)
    kaa = build.pair_key(types, a, a)
    ops = []
    for t in (a, b):
        for v in (0.2, 0.35):
            ops.append(['density', t, v])
        for v in (1.0, 1.2) + ((1.25,) if t == b else ()):       # 1.25: contact distances that are not grid points (legal; System.check only warns)
            ops.append(['diameter', t, v])
    for v in (1.0, 1.5):
        ops.append(['kT', v])
    ops.append(['potential', kab, ['HS', {}]])
    ops.append(['potential', kab, ['EXP', {'epsilon': 0.2, 'alpha': 0.5}]])
    ops.append(['potential', kab, ['LJ', {'epsilon': 0.2, 'rcut': 2.5, 'shift': True, 'sigma': 0.8}]])      # explicit sigma != diameter mean
    ops.append(['closure', kab, ['PY', False]])
    ops.append(['closure', kab, ['HNC', True]])
    ops.append(['omega', kaa, ['SingleSite', {}]])
    ops.append(['omega', kaa, ['Gaussian', {'sigma': 1.0, 'length': 6}]])
    ops.append(['domain', {'length': 64, 'dr': 0.1}])
    ops.append(['domain', {'length': 100, 'dr': 0.1}])
    ops.append(['domain.dr', 0.05])
    ops.append(['domain.length', 80])
    return ops


CALL_OPS = [['createPRISM'], ['solve']]
SOLVE_KW = dict(method='krylov', options={'maxiter': 80, 'disp': False})


def apply_edit(s, spec, op):
    """Apply one documented edit to the real System and to the reference spec."""
    spec = copy.deepcopy(spec)
    types = spec['types']
    kind = op[0]
    if kind == 'density':
        s.density[op[1]] = op[2]
        spec['density'][op[1]] = op[2]
    elif kind == 'diameter':
        s.diameter[op[1]] = op[2]
        spec['diameter'][op[1]] = op[2]
    elif kind == 'kT':
        s.kT = op[1]
        spec['kT'] = op[1]
    elif kind in ('potential', 'closure', 'omega'):
        a, b = op[1].split('|')
        if kind == 'potential':
            s.potential[a, b] = build.make_potential(op[2])
        elif kind == 'closure':
            s.closure[a, b] = build.make_closure(op[2])
        else:
            s.omega[a, b] = build.make_omega(op[2], s.domain.k)
        spec['pairs'][op[1]][kind] = op[2]
    elif kind == 'domain':
        s.domain = build.make_domain(op[1])
        spec['domain'] = dict(op[1])
    elif kind == 'domain.dr':
        s.domain.dr = op[1]
        spec['domain'] = {'length': spec['domain']['length'], 'dr': op[1]}
    elif kind == 'domain.length':
        s.domain.length = op[1]
        spec['domain'] = {'length': op[1], 'dr': spec['domain']['dr']}
    else:
        raise HarnessError('op %r' % (op,))
    return spec


def relclose(a, b, tol=1e-12):
    a = np.asarray(a, dtype=float)
    b = np.asarray(b, dtype=float)
    if a.shape != b.shape:
        return False
    fin = np.isfinite(b)
    if not np.array_equal(np.isfinite(a), fin):
        return False
    if not fin.any():
        return True
    sc = max(1e-300, float(np.max(np.abs(b[fin]))))
    return float(np.max(np.abs(a[fin] - b[fin]))) <= tol * sc


def compare_wiring(P, F, spec):
    """PRISM object created from the edited System vs from a freshly built System with the same spec."""
    pr = []
    types = spec['types']
    if not relclose(P.sys.domain.r, F.sys.domain.r) or not relclose(P.sys.domain.k, F.sys.domain.k):
        pr.append('domain grids differ from those of a fresh System')
        return pr
    if P.sys.kT != F.sys.kT:
        pr.append('kT seen by the PRISM object is %r, fresh %r' % (P.sys.kT, F.sys.kT))
    for a, b in build.pairs_of(types):
        pc, fc = P.sys.closure[a, b], F.sys.closure[a, b]
        if type(pc).__name__ != type(fc).__name__ or getattr(pc, 'apply_hard_core', None) != getattr(fc, 'apply_hard_core', None):
            pr.append('closure of pair %s-%s is %s, fresh %s' % (a, b, type(pc).__name__, type(fc).__name__))
        if not relclose(pc.potential, fc.potential):
            pr.append('closure[%s,%s].potential (u/kT on the grid) differs from that of a fresh System' % (a, b))
        if abs(float(pc.sigma) - float(fc.sigma)) > 1e-14:
            pr.append('closure[%s,%s].sigma = %r, fresh %r' % (a, b, pc.sigma, fc.sigma))
        if not relclose(P.omega[a, b], F.omega[a, b]) or not relclose(P.omega[b, a], F.omega[a, b]):
            pr.append('PRISM.omega[%s,%s] differs from that of a fresh System' % (a, b))
    if not relclose(P.sys.density.site.data, F.sys.density.site.data) or not relclose(P.sys.density.pair.data, F.sys.density.pair.data):
        pr.append('site/pair densities seen by the PRISM object differ from those of a fresh System')
    return pr


def spec_wiring(P, spec):
    """PRISM object vs what the statement of C16 says it is wired from, computed from the spec alone (refmodel):
    each pair's closure sees that pair's u(r)/kT on the domain grid and that pair's contact distance (diameter mean);
    omega is the pair's model on the k grid times the site density."""
    pr = []
    types = spec['types']
    r, k = np.asarray(P.sys.domain.r), np.asarray(P.sys.domain.k)
    T = build.ref_tables(spec, r, k)
    for i, a in enumerate(types):
        for j, b in enumerate(types):
            if j < i:
                continue
            U = T['U'][(i, j)]
            pc = P.sys.closure[a, b]
            if abs(float(pc.sigma) - U['sig_clo']) > 1e-14:
                pr.append('closure[%s,%s].sigma = %r, contact distance of that pair (d_a+d_b)/2 = %r' % (a, b, pc.sigma, U['sig_clo']))
            amb = ref.ambiguous(r, U['sig_pot'])            # K2 belongs to C10
            got = np.asarray(pc.potential, dtype=float)
            want = np.asarray(U['u'], dtype=float)
            if got.shape != want.shape:
                pr.append('closure[%s,%s].potential has shape %r' % (a, b, got.shape))
            else:
                m = ~amb
                dev = np.abs(got[m] - want[m])
                lim = 1e-11 * (np.abs(want[m]) + 1.0)
                if np.any(~(dev <= lim)):
                    ii = int(np.argmax(~(dev <= lim)))
                    pr.append('closure[%s,%s].potential at r=%.4g is %r, u_%s%s(r)/kT from the specification is %r'
                              % (a, b, float(r[m][ii]), float(got[m][ii]), a, b, float(want[m][ii])))
            for (x, y) in ((a, b), (b, a)):
                om = np.asarray(P.omega[x, y], dtype=float)
                wo = T['Omega'][:, i, j]
                if om.shape != wo.shape or not np.all(np.abs(om - wo) <= 1e-9 * (np.abs(wo) + 1.0)):
                    pr.append('PRISM.omega[%s,%s] is not the omega model of that pair on the k grid times its site density' % (x, y))
                    break
    return pr


def check_state(rec, case, s, spec, hist, with_solve):
    """Observers at one state: createPRISM (and solve) vs a fresh System; System untouched."""
    tg = {'kind': 'state'}
    d0 = deep_digest(s)
    rec.trans()
    try:
        with warnings.catch_warnings():
            warnings.simplefilter('ignore')
            P = s.createPRISM()
            F = build.make_system(spec).createPRISM()
    except Exception as e:
        rec.fail(dict(case, ops=hist), 'after %s: createPRISM raised %s: %s' % (hist, type(e).__name__, str(e)[:80]), dict(tg, kind='raises'))
        return None
    if deep_digest(s) != d0:
        rec.fail(dict(case, ops=hist), 'after %s: createPRISM modified the System' % (hist,), dict(tg, kind='system-modified'))
    for msg in compare_wiring(P, F, spec)[:2]:
        rec.fail(dict(case, ops=hist), 'after %s: %s' % (hist, msg), dict(tg, kind='wiring'))
    for msg in spec_wiring(P, spec)[:2]:
        rec.fail(dict(case, ops=hist), 'after %s: %s' % (hist, msg), dict(tg, kind='wiring-spec'))
    if with_solve:
        rec.trans()
        with warnings.catch_warnings(), np.errstate(all='ignore'):
            warnings.simplefilter('ignore')
            try:
                Ps = s.solve(**SOLVE_KW)
                ok1 = bool(Ps.minimize_result.success)
            except Exception as e:
                if build._from_library(e):
                    rec.fail(dict(case, ops=hist), 'after %s: solve raised %s: %s' % (hist, type(e).__name__, str(e)[:80]), dict(tg, kind='raises'))
                    return P
                ok1, Ps = False, None
            try:
                Fs = build.make_system(spec).solve(**SOLVE_KW)
                ok2 = bool(Fs.minimize_result.success)
            except Exception:
                ok2, Fs = False, None
        if deep_digest(s) != d0:
            rec.fail(dict(case, ops=hist), 'after %s: solve modified the System' % (hist,), dict(tg, kind='system-modified'))
        rec.count('solve_attempted')
        if ok1 != ok2:
            rec.fail(dict(case, ops=hist), 'after %s: solve on the edited System %s but on a freshly built System with the same parameters it %s'
                     % (hist, 'converged' if ok1 else 'did not converge', 'converged' if ok2 else 'did not converge'), dict(tg, kind='solve-differs'))
        elif ok1:
            rec.count('solve_converged')
            if not relclose(Ps.totalCorr.data, Fs.totalCorr.data, 1e-7) or not relclose(Ps.directCorr.data, Fs.directCorr.data, 1e-7):
                rec.fail(dict(case, ops=hist), 'after %s: solved correlations differ from those of a freshly built System with the same parameters' % (hist,),
                         dict(tg, kind='solve-differs'))
            rec.outcome(core.digest([spec, np.round(Ps.totalCorr.data[::8], 5)]))
    return P


def fresh_system(spec):
    with warnings.catch_warnings():
        warnings.simplefilter('ignore')
        return build.make_system(spec)


def spec_key(spec):
    return core.jdump(spec)


def bfs_shard(rec, types, first, depth, with_solve):
    spec = base_spec(types, copolymer=(len(types) == 3))
    s = fresh_system(spec)
    case = {'kind': 'hist', 'types': types}
    ops = [o for o in edit_ops(types) if not (len(types) == 3 and o[0].startswith('domain'))]
    hist = []
    for op in first:
        spec = apply_edit(s, spec, op)
        hist.append(op)
    seen = {spec_key(spec)}
    rec.state()
    check_state(rec, case, s, spec, hist, with_solve)
    frontier = deque([(hist, s, spec)])
    while frontier:
        h, s, spec = frontier.popleft()
        if len(h) >= depth:
            continue
        for op in ops:
            s2 = copy.deepcopy(s)
            # snapshot isolation: a PRISM object created before the edit is unchanged after it
            try:
                with warnings.catch_warnings():
                    warnings.simplefilter('ignore')
                    P = s2.createPRISM()
                dP = deep_digest(P)
                spec2 = apply_edit(s2, spec, op)
            except Exception as e:
                rec.fail(dict(case, ops=h + [op]), 'after %s: edit %r raised %s: %s' % (h, op, type(e).__name__, str(e)[:80]), {'kind': 'raises'})
                continue
            rec.trans()
            if deep_digest(P) != dP:
                rec.fail(dict(case, ops=h + [['createPRISM'], op]), 'history %s: a PRISM object created before the edit %r changed when the System was edited' % (h, op),
                         {'kind': 'snapshot-leak'})
            k = spec_key(spec2)
            if k in seen:
                continue
            seen.add(k)
            rec.state()
            rec.trace()
            check_state(rec, case, s2, spec2, h + [op], with_solve)
            frontier.append((h + [op], s2, spec2))


def case_hist(rec, c):
    """One explicit history (edits and create/solve calls) from a fresh System; every call is checked."""
    types = c['types']
    spec = base_spec(types, copolymer=(len(types) == 3))
    s = fresh_system(spec)
    case = {'kind': 'hist', 'types': types}
    rec.state()
    h = []
    earlier = []
    untouched = []
    for op in c['ops']:
        h.append(op)
        if op[0] in ('createPRISM', 'solve'):
            P = check_state(rec, case, s, spec, list(h), with_solve=(op[0] == 'solve'))
            if P is not None:
                earlier.append((P, deep_digest(P), len(h)))
            # a twin that nobody looks at until the System has been edited further (one PRISM object per state point,
            # all of them used afterwards): it must still be wired from the System's state at the moment of creation
            try:
                with warnings.catch_warnings():
                    warnings.simplefilter('ignore')
                    untouched.append((s.createPRISM(), copy.deepcopy(spec), len(h)))
            except Exception:
                pass
        else:
            try:
                spec = apply_edit(s, spec, op)
            except Exception as e:
                rec.fail(dict(case, ops=list(h)), 'edit %r raised %s: %s' % (op, type(e).__name__, str(e)[:80]), {'kind': 'raises'})
                return
            rec.trans()
            for P, d, at in earlier:
                if deep_digest(P) != d:
                    rec.fail(dict(case, ops=list(h)), 'history %s: the PRISM object created at step %d changed when the System was edited later' % (h, at),
                             {'kind': 'snapshot-leak'})
                    return
    for Pl, spec_then, at in untouched:
        if at == len(h):
            continue
        rec.trans()
        for msg in spec_wiring(Pl, spec_then)[:2]:
            rec.fail(dict(case, ops=list(h)), 'history %s: the PRISM object created at step %d and first used after the later edits is not wired from '
                     'the System\'s state at step %d: %s' % (h, at, at, msg), {'kind': 'snapshot-leak'})
            return
    rec.trace()


def replay(rec, case):
    with warnings.catch_warnings(), np.errstate(all='ignore'):
        warnings.simplefilter('ignore')
        if case['kind'] == 'missing':
            case_missing(rec, case)
        else:
            case_hist(rec, case)


def _worker(item):
    rec = Rec('C16')
    with warnings.catch_warnings(), np.errstate(all='ignore'):
        warnings.simplefilter('ignore')
        if item[0] == 'missing':
            for c in item[1]:
                case_missing(rec, c)
        elif item[0] == 'bfs':
            _, types, first, depth, with_solve = item
            bfs_shard(rec, types, first, depth, with_solve)
        else:
            for c in item[1]:
                case_hist(rec, c)
    return rec.to_dict()


def run(rec, tier, seed):
    quick = tier == 'quick'
    items = []
    # E1
    miss = []
    its2 = items_of(base_spec(TYPES2))
    for r in range(len(its2) + 1):
        for sub in itertools.combinations(its2, r):
            miss.append({'kind': 'missing', 'types': TYPES2, 'missing': list(sub)})
    # the same partial systems reached by REPLACING tables of a complete System (one and two missing items)
    for r in (1, 2):
        for sub in itertools.combinations(its2, r):
            miss.append({'kind': 'missing', 'types': TYPES2, 'missing': list(sub), 'replaced': True})
    its1 = items_of(base_spec(['A']))
    for r in range(len(its1) + 1):
        for sub in itertools.combinations(its1, r):
            miss.append({'kind': 'missing', 'types': ['A'], 'missing': list(sub)})
    T3 = ['A', 'B', 'C']
    its3 = items_of(base_spec(T3))
    for r in ((1, 2) if quick else (1, 2, 3)):
        for sub in itertools.combinations(its3, r):
            miss.append({'kind': 'missing', 'types': T3, 'missing': list(sub)})
    for i in range(48):
        items.append(('missing', miss[i::48]))
    # E2: BFS shards by first edit
    bdepth = 3 if quick else 4
    ops = edit_ops(TYPES2)
    items.append(('bfs', TYPES2, [], 0, True))
    for op in ops:
        items.append(('bfs', TYPES2, [op], bdepth, True))
    # the same exploration one level shallower with type names whose list order is not their sorted order
    items.append(('bfs', TYPES2N, [], 0, True))
    for op in edit_ops(TYPES2N):
        items.append(('bfs', TYPES2N, [op], bdepth - 1, True))
    # three types, the first two being the blocks of one chain (non-zero cross omega next to a third species)
    items.append(('bfs', T3, [], 0, True))
    for op in edit_ops(T3):
        if op[0].startswith('domain'):
            continue          # the block omegas are tabulated on the k grid: changing the grid invalidates them by design (C12)
        items.append(('bfs', T3, [op], 1 if quick else 2, True))
    # all sequences (edits and calls) without deduplication
    sdepth = 2 if quick else 3
    allops = ops + CALL_OPS
    seqs = []
    for d in range(1, sdepth + 1):
        for seq in itertools.product(allops, repeat=d):
            if not any(o[0] in ('createPRISM', 'solve') for o in seq):
                continue            # edit-only sequences are covered by the BFS
            seqs.append({'kind': 'hist', 'types': TYPES2, 'ops': [list(o) for o in seq]})
    for i in range(64):
        items.append(('seq', seqs[i::64]))
    core.pmap(_worker, items, rec)
    rec.note('alphabets', {'items_rank2': its2, 'edit_ops': ops, 'call_ops': CALL_OPS})
    rec.note('bounds', {'missing_subsets': '2^14 (two types), 2^6 (one type), up to %d omissions (three types)' % (2 if quick else 3),
                        'bfs_depth': bdepth, 'undeduplicated_sequence_depth': sdepth})
    rec.note('attempted/converged', [rec.c.get('solve_attempted', 0), rec.c.get('solve_converged', 0)])
    rec.note('fixpoint', False)
    if rec.c.get('solve_attempted', 0) and rec.c.get('solve_converged', 0) < 0.3 * rec.c.get('solve_attempted', 0):
        raise HarnessError('fewer than 30% of the solves in C16 converged')
    rec.sample({'kind': 'missing', 'types': TYPES2, 'missing': ['omega:A|B', 'domain']})
    rec.sample({'kind': 'hist', 'types': TYPES2, 'ops': [['domain.length', 80], ['solve'], ['density', 'A', 0.35], ['createPRISM']]})
