"""System lattices shared by the solve-based properties (C01, C03, C04) and
the per-evaluation monitor that re-derives, from the *spec* alone, what the
real cost function must have stored after each evaluation."""
from __future__ import annotations

import copy
import itertools
import warnings

import numpy as np

from mc import build, core
from mc.refmodel import basic as ref

OMEGA1 = {'single': ['SingleSite', {}], 'gauss6': ['Gaussian', {'sigma': 1.0, 'length': 6}],
          'fjc5': ['FJC', {'length': 5, 'l': 1.0}], 'ring6': ['GaussianRing', {'sigma': 1.0, 'length': 6}]}
DOMAINS = {'128x0.1': {'length': 128, 'dr': 0.1}, '96x0.1': {'length': 96, 'dr': 0.1}, '256x0.05': {'length': 256, 'dr': 0.05},
           # constructed from the Fourier spacing (dr follows): a different code path of Domain
           '128xdk0.25': {'length': 128, 'dk': 0.25}, '96xdk0.3': {'length': 96, 'dk': 0.3},
           # lengths with a large prime factor (2*59, prime 127): nothing in the solve may depend on the factorisation of the length
           '118x0.1': {'length': 118, 'dr': 0.1}, '127xdk0.2': {'length': 127, 'dk': 0.2}}


def kind_pair(kind, omega):
    c, p = build.KINDS[kind]
    return {'closure': list(c), 'potential': [p[0], dict(p[1])], 'omega': omega}


def rank1(kind, omk, rho, kT, dom='128x0.1'):
    return {'types': ['A'], 'kT': kT, 'domain': dict(DOMAINS[dom]), 'density': {'A': rho}, 'diameter': {'A': 1.0},
            'pairs': {'A|A': kind_pair(kind, OMEGA1[omk])}}


def rank2(kinds, omset=0, kT=1.0, dom='128x0.1', rho=None, diam=None):
    kAA, kAB, kBB = kinds
    if omset == 0:
        om = {'A|A': ['Gaussian', {'sigma': 1.0, 'length': 6}], 'A|B': ['NoIntra', {}], 'B|B': ['SingleSite', {}]}
        rho = rho or [0.25, 0.4]
    else:
        om = {'A|A': ['GaussBlockDiag', {'block': 3, 'sigma': 1.0}], 'A|B': ['GaussBlockCross', {'Na': 3, 'Nb': 4, 'sigma': 1.0}],
              'B|B': ['GaussBlockDiag', {'block': 4, 'sigma': 1.0}]}
        rho = rho or [0.24, 0.32]
    diam = diam or [1.0, 1.4]
    return {'types': ['A', 'B'], 'kT': kT, 'domain': dict(DOMAINS[dom]), 'density': {'A': rho[0], 'B': rho[1]},
            'diameter': {'A': diam[0], 'B': diam[1]},
            'pairs': {'A|A': kind_pair(kAA, om['A|A']), 'A|B': kind_pair(kAB, om['A|B']), 'B|B': kind_pair(kBB, om['B|B'])}}


R3_KINDS = ['PY+HS', 'HNChc+HCLJ', 'PY+EXP', 'MSAhc+EXP']


def rank3(kinds6, kT=1.0, dom='128x0.1', omset=0):
    types = ['A', 'B', 'C']
    pairs = build.pairs_of(types)           # AA AB AC BB BC CC
    if omset == 0:
        om = {'A|A': ['Gaussian', {'sigma': 1.0, 'length': 4}], 'B|B': ['SingleSite', {}], 'C|C': ['FJC', {'length': 3, 'l': 1.0}]}
    else:
        # A and B are the two blocks of one chain (non-zero cross omega), C is a third species
        om = {'A|A': ['GaussBlockDiag', {'block': 3, 'sigma': 1.0}], 'A|B': ['GaussBlockCross', {'Na': 3, 'Nb': 4, 'sigma': 1.0}],
              'B|B': ['GaussBlockDiag', {'block': 4, 'sigma': 1.0}], 'C|C': ['SingleSite', {}]}
    spec = {'types': types, 'kT': kT, 'domain': dict(DOMAINS[dom]), 'density': {'A': 0.15, 'B': 0.2, 'C': 0.1},
            'diameter': {'A': 1.0, 'B': 1.2, 'C': 0.8}, 'pairs': {}}
    for (a, b), kd in zip(pairs, kinds6):
        key = build.pair_key(types, a, b)
        spec['pairs'][key] = kind_pair(kd, om.get(key, ['NoIntra', {}]))
    return spec


def has_hard_core(spec):
    out = []
    for key, p in spec['pairs'].items():
        if p['closure'][1] or (p['potential'][0] in ref.HARD_CORE_POTENTIALS and p['closure'][0] in ('PY', 'HNC')):
            out.append(key)
    return out


def guesses(spec, which):
    L = spec['domain']['length']
    n = len(spec['types'])
    if which == 'zeros':
        return np.zeros(L * n * n)
    if which == 'bump':
        dr = spec['domain'].get('dr', 0.1)
        r = dr * np.arange(1, L + 1)
        g = 0.3 * r * np.exp(-(r - 1.0) ** 2)
        return np.repeat(g[:, None], n * n, axis=1).reshape(-1)
    raise KeyError(which)


# --------------------------------------------------------------------------

class Tables(object):
    """Reference quantities rebuilt from the spec (never from the object)."""

    def __init__(self, spec, dom):
        self.spec = spec
        self.types = spec['types']
        self.n = len(self.types)
        self.r = np.array(dom.r)
        self.k = np.array(dom.k)
        t = build.ref_tables(spec, self.r, self.k)
        self.site, self.pair, self.Omega, self.U = t['site'], t['pair'], t['Omega'], t['U']
        self.amb = {}
        for (i, j), d in self.U.items():
            m = ref.ambiguous(self.r, d['sig_pot'])
            if d['closure'][1]:
                m = m | ref.ambiguous(self.r, d['sig_clo'])
            self.amb[(i, j)] = m

    def closure_ref(self, i, j, gamma, variant='inside'):
        d = self.U[(i, j)]
        name, hc = d['closure']
        return ref.ref_closure_vec(name, hc, self.r, d['sig_clo'], gamma, d['u'], ms_variant=variant)

    def core_mask(self, i, j):
        """Grid points inside the hard core of pair (i,j) (ambiguous contact points excluded), or None."""
        d = self.U[(i, j)]
        name, hc = d['closure']
        if hc:
            sig = d['sig_clo']
        elif d['potential'][0] in ref.HARD_CORE_POTENTIALS and name in ('PY', 'HNC'):
            sig = d['sig_pot']
        else:
            return None
        return (self.r < sig) & ~self.amb[(i, j)]


def k1_form(d, gamma, u, out):
    """Recognises known finding K1 (the shipped Martynov-Sarkisov expression) - see C09."""
    with np.errstate(all='ignore'):
        known = np.exp(np.sqrt(gamma - u + 0.5) - 1.0) - 1.0 - gamma
    return np.isclose(out, known, rtol=1e-9, atol=1e-9, equal_nan=True)


class Monitor(object):
    """Wraps P.cost on the instance; after each sampled evaluation calls `on_eval(x, y)`."""

    def __init__(self, P, on_eval, every=1, first=25):
        self.P = P
        self.orig = P.cost
        self.on_eval = on_eval
        self.every = every
        self.first = first
        self.n = 0
        self.checked = 0
        P.cost = self

    def __call__(self, x):
        y = self.orig(x)
        self.n += 1
        if self.n <= self.first or self.n % self.every == 0:
            self.checked += 1
            self.on_eval(np.array(x, dtype=float, copy=True), y)
        return y

    def detach(self):
        try:
            del self.P.cost
        except AttributeError:
            pass
