"""Builds real pyPRISM objects from JSON-able specs, and the shared solve driver
(DESIGN.md section 2, "Solve driver").

spec = {
  'types': ['A','B'], 'kT': 1.0, 'domain': {'length':128,'dr':0.1},
  'density': {'A':..}, 'diameter': {'A':..},
  'pairs': {'A|A': {'closure': ['PY', hc], 'potential': ['HS', {...}], 'omega': ['SingleSite', {}]}, ...}
}
Pair keys are 'a|b' with a before b in the type list.
"""
from __future__ import annotations

import copy
import warnings

import numpy as np

from mc.refmodel import basic as ref

# interaction kinds: compatible (closure, hard-core flag, potential)
KINDS = {
    'PY+HS':      (['PY', False], ['HS', {}]),
    'HNC+HS':     (['HNC', False], ['HS', {}]),
    'PYhc+HS':    (['PY', True], ['HS', {}]),
    'HNChc+HCLJ': (['HNC', True], ['HCLJ', {'epsilon': 0.25}]),
    'MSAhc+EXP':  (['MSA', True], ['EXP', {'epsilon': 0.3, 'alpha': 0.5}]),
    'PY+EXP':     (['PY', False], ['EXP', {'epsilon': 0.3, 'alpha': 0.5}]),
    'HNC+HCLJ':   (['HNC', False], ['HCLJ', {'epsilon': 0.25}]),
    'PY+LJ':      (['PY', False], ['LJ', {'epsilon': 0.2, 'rcut': 2.5, 'shift': True}]),
    'HNC+WCA':    (['HNC', False], ['WCA', {'epsilon': 0.5}]),
    'MShc+HS':    (['MS', True], ['HS', {}]),
    # potentials with an explicitly given sigma that differs from the diameter mean: the potential uses its own sigma,
    # a closure with the hard-core flag excludes the diameter mean (two different distances in one pair)
    'HNChc+LJx':  (['HNC', True], ['LJ', {'epsilon': 0.2, 'rcut': 2.5, 'shift': True, 'sigma': 0.8}]),
    'PYhc+HSx':   (['PY', True], ['HS', {'sigma': 0.7}]),
}
KIND_NAMES = list(KINDS)


def pair_key(types, a, b):
    ia, ib = types.index(a), types.index(b)
    return '%s|%s' % ((a, b) if ia <= ib else (b, a))


def pairs_of(types):
    return [(a, b) for i, a in enumerate(types) for b in types[i:]]


def sigma_of(spec, a, b):
    """Contact distance the potential / the closure of pair (a,b) uses."""
    p = spec['pairs'][pair_key(spec['types'], a, b)]
    mean = (spec['diameter'][a] + spec['diameter'][b]) / 2.0
    psig = p['potential'][1].get('sigma')
    return (psig if psig is not None else mean), mean


def make_closure(cspec):
    import pyPRISM
    name, hc = cspec
    cls = {'PY': pyPRISM.closure.PercusYevick, 'HNC': pyPRISM.closure.HyperNettedChain,
           'MSA': pyPRISM.closure.MeanSphericalApproximation, 'MS': pyPRISM.closure.MartynovSarkisov,
           'PYa': pyPRISM.closure.PY, 'HNCa': pyPRISM.closure.HNC, 'MSAa': pyPRISM.closure.MSA,
           'MSa': pyPRISM.closure.MS}[name]
    with warnings.catch_warnings():
        warnings.simplefilter('ignore')
        return cls(apply_hard_core=bool(hc))


def make_potential(pspec):
    import pyPRISM
    name, p = pspec
    P = pyPRISM.potential
    kw = dict(p)
    by_attr = kw.pop('sigma_by_attribute', False)     # the explicit sigma is assigned to the object after construction
    sig = kw.pop('sigma') if (by_attr and 'sigma' in kw) else None
    cls = {'HS': P.HardSphere, 'HCLJ': P.HardCoreLennardJones, 'EXP': P.Exponential, 'LJ': P.LennardJones, 'WCA': P.WeeksChandlerAndersen}[name]
    U = cls(**kw)
    if sig is not None:
        U.sigma = sig
    return U


def make_omega(ospec, k=None):
    import pyPRISM
    name, p = ospec
    O = pyPRISM.omega
    if name == 'SingleSite':
        return O.SingleSite()
    if name == 'NoIntra':
        return O.NoIntra()
    if name == 'InterMolecular':
        return O.InterMolecular()
    if name == 'Gaussian':
        return O.Gaussian(sigma=p['sigma'], length=p['length'])
    if name == 'FJC':
        return O.FreelyJointedChain(length=p['length'], l=p['l'])
    if name == 'GaussianRing':
        return O.GaussianRing(sigma=p['sigma'], length=p['length'])
    if name in ('GaussBlockDiag', 'GaussBlockCross'):
        assert k is not None
        return O.FromArray(ref.ref_omega(ospec, k))
    raise KeyError(name)


def make_domain(dspec):
    import pyPRISM
    if 'dr' in dspec:
        return pyPRISM.Domain(length=dspec['length'], dr=dspec['dr'])
    return pyPRISM.Domain(length=dspec['length'], dk=dspec['dk'])


def domain_ok(dom):
    """Precondition that belongs to C07: grids have exactly `length` points."""
    return len(dom.r) == dom.length and len(dom.k) == dom.length


def _fresh(t):
    """An equal but distinct key object (labels built at run time are not the objects stored in the type list)."""
    if isinstance(t, str) and len(t) > 1:
        return ''.join(list(t))
    return t


def make_system(spec):
    import pyPRISM
    types = list(spec['types'])
    if spec.get('style') == 'edits':
        # the same specification reached through a short edit history (temperature assigned after construction,
        # densities/diameters first set for all types through a list key, then overwritten one by one through
        # one-element list keys in reverse order): by C15/C16 the result is the same System
        sys_ = pyPRISM.System(types, kT=spec['kT'] * 1.7 + 0.1)
        sys_.domain = make_domain(spec['domain'])
        sys_.kT = spec['kT']
        sys_.density[types] = 0.0123
        sys_.diameter[types] = 0.77
        for t in reversed(types):
            sys_.density[[t]] = spec['density'][t]
            sys_.diameter[[t]] = spec['diameter'][t]
    else:
        sys_ = pyPRISM.System(types, kT=spec['kT'])
        sys_.domain = make_domain(spec['domain'])
        for t in types:
            sys_.density[_fresh(t)] = spec['density'][t]
            sys_.diameter[_fresh(t)] = spec['diameter'][t]
    plist = [spec['pairs'][pair_key(types, a, b)] for a, b in pairs_of(types)]
    same = all(q['closure'] == plist[0]['closure'] and q['potential'] == plist[0]['potential'] for q in plist)
    bulk = spec.get('style') if (spec.get('style') in ('bulk-list', 'bulk-setunset') and same) else None
    if bulk == 'bulk-list':
        # one statement for the whole table, as in the documentation: sys.closure[sys.types, sys.types] = PercusYevick()
        sys_.closure[types, types] = make_closure(plist[0]['closure'])
        sys_.potential[types, types] = make_potential(plist[0]['potential'])
    elif bulk == 'bulk-setunset':
        sys_.closure.setUnset(make_closure(plist[0]['closure']))
        sys_.potential.setUnset(make_potential(plist[0]['potential']))
    for a, b in pairs_of(types):
        p = spec['pairs'][pair_key(types, a, b)]
        if bulk is None:
            sys_.closure[_fresh(a), _fresh(b)] = make_closure(p['closure'])
            sys_.potential[_fresh(a), _fresh(b)] = make_potential(p['potential'])
        sys_.omega[_fresh(a), _fresh(b)] = make_omega(p['omega'], sys_.domain.k)
    return sys_


def create_prism(spec):
    with warnings.catch_warnings():
        warnings.simplefilter('ignore')
        return make_system(spec).createPRISM()


# --------------------------------------------------------------------------
# reference quantities from the spec alone

def ref_tables(spec, r, k):
    """u/kT per pair, sigma per pair, Omega(k) matrix (site-density scaled),
    pair density matrix -- all from the spec, none from the object."""
    types = spec['types']
    n = len(types)
    site, pair = ref.site_pair_matrices(types, spec['density'])
    Om = np.zeros((len(k), n, n))
    U = {}
    for i, a in enumerate(types):
        for j, b in enumerate(types):
            if j < i:
                continue
            p = spec['pairs'][pair_key(types, a, b)]
            w = ref.ref_omega(p['omega'], k)
            Om[:, i, j] = site[i, j] * w
            Om[:, j, i] = site[i, j] * w
            sp, sc = sigma_of(spec, a, b)
            U[(i, j)] = dict(u=ref.ref_potential(p['potential'], r, sp) / spec['kT'],
                             sig_pot=sp, sig_clo=sc, closure=p['closure'], potential=p['potential'])
    return dict(site=site, pair=pair, Omega=Om, U=U)


# --------------------------------------------------------------------------
# solve driver

ROUTES = {
    'krylov':   dict(method='krylov', options={'maxiter': 100, 'disp': False}),
    'df-sane':  dict(method='df-sane', options={'maxfev': 1500, 'disp': False}),
    'anderson': dict(method='anderson', options={'maxiter': 300, 'disp': False}),
    'broyden1': dict(method='broyden1', options={'maxiter': 300, 'disp': False}),
    'hybr':     dict(method='hybr', options={'maxfev': 5000}),
    'krylov-tight': dict(method='krylov', options={'maxiter': 150, 'fatol': 1e-10, 'disp': False}),
}


def try_solve(P, route, guess=None):
    """One bounded solve attempt.  Returns the scipy result or None.  An
    exception raised by scipy during the search counts as not converged."""
    r = ROUTES[route]
    n = P.sys.rank * P.sys.rank * P.sys.domain.length
    if r['method'] == 'hybr' and n > 600:
        return None
    with warnings.catch_warnings(), np.errstate(all='ignore'):
        warnings.simplefilter('ignore')
        try:
            res = P.solve(guess=guess, method=r['method'], options=dict(r['options']))
        except (ValueError, FloatingPointError, ZeroDivisionError, np.linalg.LinAlgError, OverflowError) as e:
            if _from_library(e):
                raise
            return None
    if not bool(res.success):
        return None
    if not np.all(np.isfinite(res.x)):
        return None
    return res


def _from_library(exc):
    """True when the innermost frame of the exception is pyPRISM code (then it
    is not a scipy search failure and must not be swallowed)."""
    tb = exc.__traceback__
    last = None
    while tb is not None:
        last = tb
        tb = tb.tb_next
    fn = last.tb_frame.f_code.co_filename if last is not None else ''
    return '/pyPRISM/' in fn and '/scipy/' not in fn


def polish(P, x, fatol=1e-11):
    with warnings.catch_warnings(), np.errstate(all='ignore'):
        warnings.simplefilter('ignore')
        try:
            res = P.solve(guess=np.array(x, dtype=float), method='krylov',
                          options={'maxiter': 200, 'fatol': fatol, 'disp': False})
        except (ValueError, FloatingPointError, ZeroDivisionError, np.linalg.LinAlgError, OverflowError) as e:
            if _from_library(e):
                raise
            return None
    if not bool(res.success) or not np.all(np.isfinite(res.x)):
        return None
    return res


def ramp_spec(spec, lam):
    s = copy.deepcopy(spec)
    for t in s['density']:
        s['density'][t] = spec['density'][t] * lam
    return s


def solve_portfolio(spec, routes=('krylov', 'df-sane', 'anderson'), ramp=True, first_only=True):
    """Yields (route_name, PRISM, result) for converged routes.  With
    first_only the search stops at the first converged route."""
    out = []
    for rt in routes:
        P = create_prism(spec)
        res = try_solve(P, rt)
        if res is not None:
            out.append((rt, P, res))
            if first_only:
                return out
    if ramp and not out:
        x = None
        ok = True
        for lam in (0.05, 0.15, 0.3, 0.45, 0.6, 0.75, 0.9, 1.0):
            P = create_prism(ramp_spec(spec, lam))
            res = try_solve(P, 'krylov', guess=x)
            if res is None:
                res = try_solve(create_prism(ramp_spec(spec, lam)), 'anderson', guess=x)
                if res is None:
                    ok = False
                    break
                P = create_prism(ramp_spec(spec, lam))
                res = try_solve(P, 'anderson', guess=x)
                if res is None:
                    ok = False
                    break
            x = res.x
        if ok:
            out.append(('ramp', P, res))
    return out
